#!/bin/bash
# usage: tools/run_all.sh quick|thorough [seed] [ids...]   -- runs checks sequentially, prints one line each
tier=${1:-quick}; seed=${2:-0}; shift; shift
here=$(cd "$(dirname "$0")/.." && pwd)
ids=${@:-C01 C02 C03 C04 C05 C06 C07 C08 C09 C10 C11 C12 C13 C14 C15 C16 C17 C18 C19 C20}
for id in $ids; do
  out=$(VERIF_SEED=$seed "$here/check" $id --tier $tier 2>&1)
  rc=$?
  echo "rc=$rc $(echo "$out" | grep -E "^C[0-9]+ tier" | tail -1)"
  if [ $rc -ne 0 ]; then echo "$out" | grep -E "VIOLATION|INCONCL|witness|KNOWN|note:" | cut -c1-400 | head -8; fi
done
