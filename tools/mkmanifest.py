#!/usr/bin/env python3
"""Regenerates MANIFEST.json from the table below (keeps it valid at all times)."""
import json
import pathlib

HOME = pathlib.Path(__file__).resolve().parent.parent

# id: (level, technique, level text, level note, design section)
CHECKS = {
    "C01": ("exploration",
            "differential runtime monitor: IH5Record with patch boundaries vs plain h5py.File in lock-step, view compared after every operation; CPU-alarm + logical step budget for non-termination",
            "Every generated history (state-guided random, replace-then-touch templates over up to 6 containers, bounded-exhaustive sequences with all boundary masks) is executed on the real IH5Record and on a plain h5py.File; status and complete view (two walkers, len/in/lookup probes) are compared after every single operation. Held on the histories observed, not for all histories.",
            "trusts h5py.File as the single-tree reference and the harness dumpers; keys limited to the documented alphabet",
            "4 C01"),
    "C02": ("exploration",
            "file-ledger monitor: (sha256,size,inode) of every committed container and sidecar re-checked after every API call; earlier file sets reopened in place",
            "Random histories of data and record-level calls (incl. deliberately failing ones, merges, reopen in r/r+/a, neighbour truncation) on IH5Record and IH5MFRecord; after every call all committed files are re-hashed and compared with the ledger entry taken when the on-disk user block first carried a payload hash; file sets of earlier commits are reopened and must show the recorded state.",
            "committed = on-disk user block carries hdf5_hashsum (parsed by the harness itself); bytes still buffered in HDF5 are seen at close at the latest",
            "4 C02"),
    "C03": ("exploration",
            "contract-table monitor over the full mode x situation x neighbourhood x class matrix with a directory-state monitor; reopen by name and by all list permutations",
            "All 120 matrix cells with random content per run, plus reopen cases with every permutation of the file list; each outcome (view, created/removed/changed files, refused calls, discard_patch) is compared with a contract table written from the property and h5py.File semantics.",
            "contract table is the harness author's reading of the statement; stale sidecars after 'w' only counted",
            "4 C03"),
    "C04": ("fault_enumeration",
            "fault injection on real record files (byte flips at enumerated payload offsets, truncation, chain surgery, forks, user-block and manifest edits) with an open-must-raise oracle and must-open controls",
            "For each generated record every structural fault of the property's list is applied, and payload bytes are flipped at sampled (quick) or ALL (thorough) offsets of every container; a faulty set that opens is a violation. Controls make sure the oracle is not 'everything fails'.",
            "records are sampled; each flip variant is written to a fresh inode because HDF5 shares per-file state by inode within a process",
            "4 C04"),
    "C05": ("exploration",
            "runtime monitor around merge_files: frame condition on the still-open source (meta, files, view, disk), merged view vs source view (IH5 and plain h5py), identity fields, follow-up patch differential, refusal cases",
            "Random source records with up to 6 containers of both classes are merged while open; the merged container is compared with the overlay view, read with plain h5py, checked for identity, and a follow-up patch of the source is opened on both chains.",
            "follow-up patches are random data operations; stub refusal only for IH5MFRecord",
            "4 C05"),
    "C10": ("exploration",
            "runtime monitor after every commit (sidecar vs on-disk user block vs independently computed skeleton) plus lock-step differential of an update applied via a stub patch and directly",
            "Random real IH5MFRecords; manifest consistency is checked after every commit; a stub from the newest manifest is compared structurally (same skeleton, all values Empty, merge refused), and an existence-based update history is executed both on a patch over the stub and directly on the real record, then the stub-made patch is joined with the real files and compared.",
            "update histories restricted to existence-based operations as the property states; group patch_index not asserted",
            "4 C10"),
    "C11": ("fault_enumeration",
            "crash injection: directory snapshots at API boundaries, every torn prefix of the committing user-block write, sys.monitoring LINE failpoints with SIGKILL in forked children, random-instant SIGKILL; recovery oracle on the crashed directory",
            "Per generated record one patch cycle is crashed at every API boundary, every prefix of the commit's user-block write, (quick: all commit-path + sampled; thorough: all) Python line boundaries inside the ih5 package, and at random instants during large writes; the crashed directory is judged by ledger equality, committed-set reopen and the three allowed outcomes for the complete set.",
            "process kill only (page cache survives); expected new state from an uncrashed dry run of the same deterministic cycle",
            "4 C11"),
    "C16": ("exploration",
            "specification-oracle monitor: exhaustive pairs/triples of references against the (group,name,version) order and the supports rule; version tables in every registration order through both registration paths against a pure-function spec of versions()/resolve()",
            "All 11664 ordered pairs of 108 references (all six comparison operators, hash, supports), transitivity triples (all in thorough), every subset of <=3/<=4 pool versions in every registration order via synthetic entry points on a fresh plugin-group instance and via register_in_group, name codec round trips, UndefVersion subclassing.",
            "small-scope: 2 groups x 2 names x versions {0,1,2}^3; 12-element version pool",
            "4 C16"),
    "C18": ("exploration",
            "brute-force oracle + executable tree transformer over DirDiff; exhaustive over all pairs of 400 small trees, random larger trees, real directories with annotate()",
            "All 160000 ordered pairs of the small-tree space are compared in both tiers: reported paths == changed paths, per-node prev/curr/status, get() vs listing, and replay of nodes() in order with the stated preconditions must produce the new tree.",
            "small scope: names {a,b}, depth <=2; larger trees only sampled",
            "4 C18"),
    "C19": ("exploration",
            "independent-walker oracle (os.scandir/readlink/hashlib) on generated real directory trees, equal-content pairs, single edits, digest checks at block boundaries incl. short-reading streams, escaping links",
            "Generated directory trees are created twice (shuffled order, other mtimes) and hashed by the real dir_hashsums; result must equal the independent walker and each other; every single edit must change the tree; escaping links must raise.",
            "symlink targets compared after resolution",
            "4 C19"),
    "C06": ("exploration",
            "TOC oracle: independent scan of the raw container after every container call (ok or raised) + comparison of the public TOC view before close and after reopen",
            "State-guided random container histories (metadata of installed schemas and multi-version harness families, copy/move/delete, failing calls, kept handles, patch boundaries, reopen) on the h5py, IH5 and IH5MF drivers; every call is followed by a from-scratch recomputation of objects/links/schema/package records from the raw container.",
            "single-handle discipline for kept MetadorMeta handles; move into own subtree excluded",
            "4 C06"),
    "C07": ("exploration",
            "shadow-map monitor: per-node metadata read-back and ancestor views, refusal statuses, and query result sets vs. a brute-force evaluation over the shadow map and the plugin system",
            "Same workload as C06 with a harness-side map of what is attached where; reads through fresh and kept handles, by name / (name, version) / class; ancestor views; queries for sampled names x version arguments x start nodes x three entry points compared with brute force.",
            "objects are stored under the newest installed compatible version (modelled); with several suitable objects at one node any of them may serve an ancestor view (documented parent consistency)",
            "4 C07"),
    "C08": ("exploration",
            "protocol enumeration with reserved paths in every path position (reject + raw tree unchanged) and a visibility monitor comparing every listing form at every group with a plain h5py tree after every operation",
            "All path-taking methods recomputed from the live classes x 13 reserved paths x 3 start groups x 3 drivers, near-miss names as controls; plus the C06 workload with status and user-view comparison against a plain tree.",
            "unknown methods are probed generically",
            "4 C08"),
    "C20": ("exploration",
            "runtime validation of every stored object (found by the oracle's own raw scan) against the embedded JSON Schema, parent chain and provider record; fresh-container comparison after reopen",
            "C06 workload over installed schemas and harness families; Draft-7 validation, schema/parent chain/provider equality with the plugin system after every attachment and at reopen points.",
            "jsonschema package as validator",
            "4 C20"),
    "C09": ("exploration",
            "lock-step differential monitor of one container history through MetadorContainer on h5py.File, IH5Record and IH5MFRecord (status, user view, attached metadata, TOC up to UUID bijection, queries) after every step",
            "Random container histories with IH5 patch boundaries and reopen points at generated positions; all three drivers must agree on ok/fail and on everything a user can observe.",
            "exception classes not compared",
            "4 C09"),
    "C15": ("exploration",
            "breadth-first exploration of wrapper states reachable by navigation chains from restricted start nodes; per reached state all mutators / readers / upward operations must be refused with the raw container dump unchanged",
            "Every start node x 7 flag combinations x 2 drivers; all chains up to length 3 (quick) / 5 (thorough) over the navigation primitives are explored (terminals run once per distinct wrapper state: node, flags, local parent).",
            "chains through `file` and dataset extras outside the H5DatasetLike protocol are observations only",
            "4 C15"),
    "C17": ("exploration",
            "read-back monitor: pack_file of a boundary/NUL/marker byte corpus on three drivers, then histories that keep the node (patch boundaries, copy, move, group copy, delete original, reopen, merge) with every surviving copy re-read and its file metadata re-checked at every stage",
            "Each byte string x driver x history; bytes, contentSize, sha256 and filename compared with the source file and hashlib at each stage; the IH5 deletion-marker value must be rejected without effect.",
            "fixed history templates (three)",
            "4 C17"),
    "C12": ("exploration",
            "round-trip monitor over installed schemas, harness families and schema classes generated from the field-type grammar, with a type-directed instance generator and a YAML/JSON-hostile boundary corpus",
            "Every generated valid instance is serialised to bytes, JSON and YAML (string and file) and parsed back with the same schema; equality, second-round-trip byte identity, constants present in the output and ignored on input.",
            "candidates are validated by constructing the model; acceptance rate reported and guarded by a floor",
            "4 C12"),
    "C13": ("exploration",
            "soundness monitor for check_types: all ordered (parent type, child type) pairs of a type pool are turned into real Parent/Child classes; for every accepted pair each boundary value valid for the child must be accepted by the parent; plus ancestor parsing of generated instances of registered schemas",
            "All pairs over ~46 (quick) / ~70 (thorough) types x 47 boundary values; instances of installed schemas and families against every ancestor; extra-field policy refusals.",
            "only soundness of acceptance is demanded; value corpus is finite",
            "4 C13"),
    "C14": ("exploration",
            "specification-oracle monitor for partial merge (identities, associativity, concatenation/union, no loss, conflict behaviour, to/from partial) on correlated triples, plus an icontract snapshot/ensure frame contract installed from outside on PartialModel.merge_with that also observes the merges made inside merge() and harvest()",
            "Partials of generated classes and installed schemas obtained through parse_obj / JSON / YAML / to_partial / cast / metadata_loader+harvest; every law compared against a 30-line structural specification; contract evaluations counted.",
            "structural equality; chain condition for nested classes as stated in the property",
            "4 C14"),
}

NOT_YET = {
}

NOT_APPLICABLE = []


def main():
    props = [json.loads(l) for l in (HOME / "properties.jsonl").read_text().splitlines() if l.strip()]
    checks = []
    na = list(NOT_APPLICABLE)
    for p in props:
        pid = p["id"]
        if pid in CHECKS:
            level, tech, text, note, ref = CHECKS[pid]
            checks.append({
                "property_id": pid,
                "quick_cmd": f"./check {pid} --tier quick",
                "thorough_cmd": f"./check {pid} --tier thorough",
                "evidence_file": f"evidence/{pid}.json",
                "replay_cmd_template": f"./check {pid} --replay {{path}}",
                "engine": "vlib.runner",
                "level_claimed": {"category": level, "text": text, "design_ref": f"DESIGN.md section {ref}"},
                "level_note": note,
                "technique": tech,
            })
        elif not any(n["property_id"] == pid for n in na):
            na.append({"property_id": pid, "reason": NOT_YET.get(pid, "monitor for this property is not built yet in this snapshot of /verif (runtime monitoring applies; see DESIGN.md section 4)")})
    man = {
        "version": 1,
        "setup_cmd": "./setup.sh",
        "hooks": {
            "guard": "METADOR_CORE_VERIF",
            "enable": "no source hooks are needed: all observation points are reached from outside (public API, harness-side wrappers, sys.monitoring, file system); checks put /repo/src first on PYTHONPATH",
            "baseline_off_cmd": "cd /repo && /venv/bin/python -m pytest -ra -q -p no:cacheprovider --timeout=900 --continue-on-collection-errors",
            "source_commits": [],
            "add_only": True,
        },
        "engines": [
            {"name": "vlib.runner", "path": "vlib/runner.py",
             "serves_properties": [c["property_id"] for c in checks],
             "kind_free_text": "fork-sharded workload driver with three-valued verdicts, evidence writer, replay, known-findings matching"},
        ],
        "checks": checks,
        "not_applicable": na,
        "notes": "Technique family: runtime monitoring. Exit codes: 0 held on what was observed, 1 violation (VIOLATION line), 2 inconclusive (never reported as held). Genuine defects found by the monitors were repaired in /repo by 'fix:' commits and are listed in known_findings.json under 'fixed'.",
    }
    (HOME / "MANIFEST.json").write_text(json.dumps(man, indent=1) + "\n")
    print(f"MANIFEST.json: {len(checks)} checks, {len(na)} not claimed")


if __name__ == "__main__":
    main()
