#!/usr/bin/env python3
"""usage: tools/seed_store.py <worktree seed_out dir> <property id> <name> -- evaluates (quick tier vs scratch copy),
confirms (demo + suites in scratch copy) and stores a seeded change under seeded/<name>/ with meta.json."""
import json, pathlib, shutil, subprocess, sys
src, pid, name = pathlib.Path(sys.argv[1]), sys.argv[2], sys.argv[3]
checks = sys.argv[4] if len(sys.argv) > 4 else pid
V = pathlib.Path(__file__).resolve().parent.parent
ev = subprocess.run([str(V / "tools/mutant.sh"), str(src / "patch.diff"), checks], capture_output=True, text=True).stdout
cf = subprocess.run([str(V / "tools/seed_confirm.sh"), str(src)], capture_output=True, text=True).stdout
print(ev); print(cf)
caught = "VIOLATION property=" in ev
d = V / "seeded" / name
d.mkdir(parents=True, exist_ok=True)
for f in ("patch.diff", "demo.py", "notes.md"):
    shutil.copy(src / f, d / f)
notes = (src / "notes.md").read_text()
meta = {"property": pid, "written_by": "independent sub-agent given only the property text (plus the idea already tried in round 1) and a scratch worktree",
        "needs_to_manifest": "see notes.md",
        "confirmed": {l.split(":")[0].strip(): l.split(":", 1)[1].strip() for l in cf.splitlines() if ":" in l},
        "detection_first_run": ("caught" if caught else "MISSED") + " by quick tier of " + checks,
        "first_run_output": [l for l in ev.splitlines() if l.startswith(("VIOLATION", "C"))][:4],
        "how_checked": f"tools/mutant.sh seeded/{name}/patch.diff {checks}"}
(d / "meta.json").write_text(json.dumps(meta, indent=1))
print("CAUGHT" if caught else "MISSED", name)
