#!/bin/bash
# Runs (1) the pinned baseline exactly as BASELINE.json does (guard off, no shim) and
# (2) the whole upstream suite with the numpy alias shim. Prints pass counts.
repo=${1:-/repo}
cd "$repo"
echo "== baseline (no shim)"
/venv/bin/python -m pytest -q -p no:cacheprovider --timeout=900 --continue-on-collection-errors -x -q 2>&1 | tail -1
/venv/bin/python -m pytest -ra -q -p no:cacheprovider --timeout=900 --continue-on-collection-errors 2>&1 | tail -1
echo "== upstream suite with shim"
PYTHONPATH=/verif/vlib/shim /venv/bin/python -m pytest -q -p no:cacheprovider --timeout=900 --ignore=tests/zz_docs 2>&1 | tail -3
rm -rf "$repo/.hypothesis" "$repo/.pytest_cache" 2>/dev/null
git -C "$repo" status --short | head
