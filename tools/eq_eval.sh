#!/bin/bash
# Equivalent-change audit (DESIGN 7.3): behaviour-preserving refactorings written by an independent sub-agent are applied to
# scratch copies of /repo; the owning checks must stay silent (exit 0, no VIOLATION line).
here=$(cd "$(dirname "$0")/.." && pwd)
declare -A MAP=( [01]="C01 C05 C09 C17" [02]="C01 C05 C09 C17" [03]="C02 C03 C04 C05 C11" [04]="C02 C03 C04 C05 C11" [05]="C10 C04 C11"
  [06]="C08 C15 C06 C09" [07]="C08 C15 C06 C09" [08]="C06 C07 C20" [09]="C14" [10]="C13 C12" [11]="C16" [12]="C18" [13]="C19 C04" [14]="C17" )
for f in "$here"/selftest/equivalent/*.diff; do
  n=$(basename "$f" .diff); k=${n:0:2}
  for c in ${MAP[$k]}; do
    out=$("$here/tools/mutant.sh" "$f" $c ${1:-quick} 2>&1)
    if echo "$out" | grep -q "held on what was observed" && ! echo "$out" | grep -q "^VIOLATION"; then echo "SILENT $n $c"; else echo "ALARM $n $c: $(echo "$out" | tail -2 | tr '\n' ' ' | cut -c1-250)"; fi
  done
done
