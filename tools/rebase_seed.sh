#!/bin/bash
# usage: tools/rebase_seed.sh <seed-dir-name> <python-edit-script>   -- rewrites seeded/<name>/patch.diff against the current /repo
# tree by running the edit script (cwd = scratch copy of /repo); the patch as written by the sub-agent is kept as patch.as-written.diff
set -e
here=$(cd "$(dirname "$0")/.." && pwd); n=$1; ed=$(realpath "$2")
m=/dev/shm/rbs-$$; rm -rf $m; mkdir -p $m; rsync -a --exclude .git /repo/src $m/
cd $m; git init -q .; git add -A >/dev/null; git -c user.email=a@b -c user.name=x commit -qm base >/dev/null
python3 "$ed"
[ -f "$here/seeded/$n/patch.as-written.diff" ] || cp "$here/seeded/$n/patch.diff" "$here/seeded/$n/patch.as-written.diff"
git diff -- src > "$here/seeded/$n/patch.diff"
cd /; rm -rf $m; grep -c "^@@" "$here/seeded/$n/patch.diff"
