#!/bin/bash
# Re-evaluates every seeded change against the quick tier of its property's check (scratch copies of /repo).
here=$(cd "$(dirname "$0")/.." && pwd)
for d in "$here"/seeded/*/; do
  n=$(basename "$d"); pid=$(python3 -c "import json;print(json.load(open('$d/meta.json'))['property'])")
  if grep -q neutralised_by_fix "$d/meta.json"; then echo "NEUTRALISED $n ($pid): behaviour-preserving since a later fix commit"; continue; fi
  out=$("$here/tools/mutant.sh" "$d/patch.diff" $pid 2>&1)
  if echo "$out" | grep -q "VIOLATION property=$pid"; then echo "CAUGHT $n ($pid)"; else echo "MISSED $n ($pid): $(echo "$out" | tail -1)"; fi
done
