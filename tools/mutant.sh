#!/bin/bash
# usage: tools/mutant.sh <patch.diff> <check-id> [tier]   -- runs a check against a mutated scratch copy of /repo
set -e
here=$(cd "$(dirname "$0")/.." && pwd)
m=/dev/shm/mrepo-$$
rm -rf $m; mkdir -p $m
rsync -a --exclude .git /repo/ $m/
pf=$(realpath "$1"); ( cd $m && patch -p1 -s < "$pf" )
shift
rc=0
for id in $(echo "$1" | tr , ' '); do
  VERIF_REPLAYS=$m/replays VERIF_REPO=$m "$here/check" $id --tier ${2:-quick} --no-evidence 2>&1 | grep -E "^(VIOLATION|KNOWN|INCONCL|C[0-9]+ tier)" | cut -c1-300 || true
done
rm -rf $m
