#!/bin/bash
# usage: tools/seed_confirm.sh <dir with patch.diff, demo.py> -- confirms a seeded change in a scratch copy of /repo
d=$(realpath "$1")
m=/dev/shm/seedchk-$$
rm -rf $m; mkdir -p $m; rsync -a --exclude .git --exclude seed_out /repo/ $m/
cd $m
echo "demo without change: $(PYTHONPATH=/tmp/shim:$m/src timeout 600 /venv/bin/python $d/demo.py >/dev/null 2>&1; echo $?)"
patch -p1 -s < $d/patch.diff || { echo "PATCH DOES NOT APPLY"; rm -rf $m; exit 1; }
echo "demo with change:    $(PYTHONPATH=/tmp/shim:$m/src timeout 600 /venv/bin/python $d/demo.py >/dev/null 2>&1; echo $?)"
echo "upstream suite:      $(PYTHONPATH=/tmp/shim:$m/src /venv/bin/python -m pytest -q -p no:cacheprovider --timeout=900 --ignore=tests/zz_docs 2>&1 | tail -1)"
echo "baseline:            $(PYTHONPATH=$m/src /venv/bin/python -m pytest -q -p no:cacheprovider --timeout=900 --continue-on-collection-errors 2>&1 | tail -1)"
cd /; rm -rf $m
