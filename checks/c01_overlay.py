"""C01 — IH5 overlay transparency: lock-step differential monitor IH5Record(with patch
boundaries) vs. plain h5py.File, after every operation (status + full view by two walkers)."""
from __future__ import annotations

import itertools
import random

from vlib import h5eng as E
from vlib.opgen import DataGen
from vlib.shrink import shrink_list

PROPERTY = "C01"
LEVEL = "exploration"
RULE = (
    "histories of set/create_group/require_group/delete/set-attr/del-attr/copy/move (+commit+create_patch "
    "boundaries, close/reopen) run in lock-step on IH5Record and plain h5py.File; after every op status and "
    "full dump (two walkers, len/in/lookup probes) are compared. Generators: state-guided random, "
    "replace-then-touch templates over 2-6 containers, bounded-exhaustive sequences over a 12-op alphabet "
    "with all boundary masks on a populated base. non-trivial = the record has >=2 containers and at least one "
    "successful operation touches (is prefix-related to) a path written in an OLDER container; distinct = hash of the op list."
)
ANCHORS = ["src/metador_core/ih5/overlay.py", "src/metador_core/ih5/record.py"]
ASSUMPTIONS = [
    "plain h5py.File is the reference for 'a single plain HDF5-like tree'",
    "keys from printable ASCII without '@'; '.', '..' and empty segments are HDF5 path syntax and excluded",
    "moving a node into its own subtree is excluded (as the property states)",
    "in-place element writes into datasets of older containers (copy_into_patch) are outside the operation list",
]
WORKERS = {"quick": 14, "thorough": 16}

ABSENT = ["/zz", "zz/y"]  # plus <group>/zz for every group of the reference (see absent())


# ---------------------------------------------------------------- one history


def groups_of(root):
    # membership/get probes for absent names are only issued below *groups*: a lookup that passes
    # through a dataset raises ValueError in IH5 and returns False/None in h5py; that is an error-
    # reporting difference of a failing lookup, not a different tree, and is not demanded here.
    out = ["/"]
    root.visititems(lambda n, o: out.append("/" + n) if not E.is_ds(o) else None)
    return out


def run_history(ops, acc, d, record=True, cls=None, strict=False):
    """Run ops in lock-step. Returns None or a mismatch dict."""
    A = E.IH5Subject(d, "rec", cls or E.IH5Record)
    R = E.H5Subject(d)
    written = [set()]  # per container: abs paths written
    cross = 0
    nnodes = 1
    try:
        for i, op in enumerate(ops):
            nn = 20000 + 2000 * nnodes
            sa = A.apply(op, budget=nn if strict else None)
            if sa == "suspect":  # CPU alarm: decide by a strict re-run on logical steps
                return {"kind": "suspect", "at": i, "op": op, "detail": "cpu alarm"}
            if sa == "nonterminating":
                return {"kind": "nonterminating", "at": i, "op": op,
                        "detail": f"step budget {nn} exceeded in {E.inner(op)[0]}"}
            sr = R.apply(op)
            if op[0] in ("commit", "reopen"):
                if sa != "ok":
                    return {"kind": "boundary-failed", "at": i, "op": op, "detail": sa}
                written.append(set())
            if record:
                acc.count(f"ops.{E.inner(op)[0]}.{E.st(sr)}")
            if E.st(sa) != E.st(sr):
                return {"kind": "status", "at": i, "op": op,
                        "detail": f"IH5 {sa} vs h5py {sr}"}
            if E.st(sr) == "ok" and op[0] not in ("commit", "reopen"):
                ps = E.op_paths(op)
                for p in ps:
                    if any(E.is_sub(q, p) or E.is_sub(p, q) for w in written[:-1] for q in w):
                        cross += 1
                    written[-1].add(p)
            try:
                last = i == len(ops) - 1 or op[0] in ("commit", "reopen")
                if last:  # all probes at boundaries and at the end, otherwise around the touched paths
                    absent, pp = ABSENT + [g.rstrip("/") + "/zz" for g in groups_of(R.root)], None
                else:
                    pp = [q for p in E.op_paths(op) for q in (p, p.rsplit("/", 1)[0] or "/")]
                    absent = ABSENT
                if strict:
                    with E.BUDGET(400000):
                        da, pa = E.full_dump(A.root, absent, pp)
                else:
                    with E.cpu_guard(8.0):
                        da, pa = E.full_dump(A.root, absent, pp)
            except E.CpuAlarm:
                return {"kind": "suspect", "at": i, "op": op, "detail": "cpu alarm in dump"}
            except E.BudgetExceeded:
                return {"kind": "nonterminating-read", "at": i, "op": op, "detail": "dump of IH5 view"}
            except Exception as e:
                return {"kind": "read-error", "at": i, "op": op,
                        "detail": f"reading the IH5 view raised {type(e).__name__}: {str(e)[:120]}"}
            dr, pr = E.full_dump(R.root, absent, pp)
            nnodes = len(dr)
            if record:
                acc.count("observations", len(dr) + len(pr))
            df = E.diff_dumps(da, dr)
            if df:
                return {"kind": "view:" + df[0], "at": i, "op": op, "detail": df[2]}
            if pa != pr:
                k = sorted(k for k in set(pa) | set(pr) if pa.get(k) != pr.get(k))[0]
                return {"kind": "probe:" + k.split(":")[0], "at": i, "op": op,
                        "detail": f"{k}: IH5 {pa.get(k)} h5py {pr.get(k)}"}
        if record:
            ncont = len(A.root.ih5_files)
            acc.count(f"containers.{min(ncont, 8)}")
            acc.case(ops, nontrivial=(ncont >= 2 and cross > 0))
            if cross:
                acc.count("histories_with_cross_container_touch")
        return None
    finally:
        A.close(commit=False)
        R.close()


def check_history(ops, acc, gen):
    d = acc.newdir("h")
    try:
        mm = run_history(ops, acc, d)
    finally:
        acc.rmdir(d)
    strict = False
    if mm is not None and mm["kind"] == "suspect":
        # the CPU-time alarm fired: re-run under the logical step budget, which alone decides
        acc.count("cpu_alarm_reruns")
        strict = True
        d = acc.newdir("h")
        try:
            mm = run_history(ops, acc, d, strict=True)
        finally:
            acc.rmdir(d)
    if mm is None:
        return
    # shrink while the same kind of mismatch persists
    kind = mm["kind"]
    pre = f"{kind}:{E.inner(mm['op'])[0]}"
    acc.count("mismatch." + pre)
    if acc.counters["mismatch." + pre] > 2 or len(acc.violations) >= 8:
        return  # already witnessed (and shrunk) in this worker; only counted
    ops = ops[: mm["at"] + 1]

    def fails(cand):
        dd = acc.newdir("s")
        try:
            m = run_history(cand, acc, dd, record=False, strict=strict)
            return m is not None and m["kind"] == kind
        finally:
            acc.rmdir(dd)

    small = shrink_list(ops, fails, max_trials=40 if kind.startswith('nonterminating') else 150)
    dd = acc.newdir("s")
    try:
        m2 = run_history(small, acc, dd, record=False, strict=strict) or mm
    finally:
        acc.rmdir(dd)
    # diagnostic: same history without boundaries (overlay defect vs API difference)
    nb = [o for o in small if o[0] not in ("commit", "reopen")]
    dd = acc.newdir("s")
    try:
        mb = run_history(nb, acc, dd, record=False, strict=strict)
    finally:
        acc.rmdir(dd)
    where = "any-container" if mb is not None and mb["kind"] == m2["kind"] else "patch-overlay"
    sig = f"{m2['kind']}:{E.inner(m2['op'])[0]}:{where}"
    acc.violation(
        sig,
        f"{m2['detail']} after op #{m2['at']} {m2['op']} (generator {gen}; shrunk to {len(small)} ops: {small})",
        {"ops": small, "generator": gen},
    )


# ---------------------------------------------------------------- generators


def gen_random(seed, n, acc):
    rng = random.Random(seed)
    for _ in range(n):
        length = rng.randint(5, 40)
        dens = rng.choice([0, 0.5, 1, 2])
        d = acc.newdir("g")
        R = E.H5Subject(d, "gen")
        g = DataGen(rng, weights={"commit": int(14 * dens)})
        ops = []
        try:
            for _i in range(length):
                op = g.next(R.root)
                ops.append(op)
                R.apply(op)
        finally:
            R.close()
            acc.rmdir(d)
        check_history(ops, acc, "random")


SETUPS = {
    "group+attrs": [["grp", "a"], ["sattr", "a", "k", ["int", 1]], ["sattr", "a", "m", ["str", "s"]],
                    ["set", "a/x", ["int", 2]], ["set", "a/g/y", ["int", 3]], ["sattr", "a/g", "k", ["int", 4]]],
    "dataset+attrs": [["set", "a", ["int", 1]], ["sattr", "a", "k", ["int", 2]], ["sattr", "a", "m", ["int", 3]]],
    "nested": [["set", "a/g/h/z", ["arr", [1, 2]]], ["sattr", "a/g/h", "k", ["int", 5]], ["set", "a/x", ["str", "q"]]],
}
REPLACE = {
    "group": [["del", "a"], ["grp", "a"]],
    "group+attr": [["del", "a"], ["grp", "a"], ["sattr", "a", "n", ["int", 9]]],
    "dataset": [["del", "a"], ["set", "a", ["int", 77]]],
    "deep": [["del", "a"], ["set", "a/g/new", ["int", 78]]],
    "delete-only": [["del", "a"]],
}
TOUCH = {
    "add-child": [["set", "a/n{i}", ["int", 100]]],
    "add-deep": [["set", "a/g/q{i}/r", ["int", 101]]],
    "set-attr": [["sattr", "a", "t{i}", ["int", 102]]],
    "del-attr": [["dattr", "a", "n"]],
    "child-attr": [["sattr", "a/g", "u{i}", ["int", 103]]],
    "rgrp": [["rgrp", "a"]],
    "rgrp-deep": [["rgrp", "a/g/w{i}"]],
    "mkgrp": [["grp", "a/G{i}"]],
    "del-child": [["del", "a/x"]],
    "noop-commit": [],
}


def template_histories(tier, seed):
    rng = random.Random(seed)
    out = []
    tk = list(TOUCH)
    chains = [(t,) for t in tk] + list(itertools.product(tk, tk))
    c3 = list(itertools.product(tk, tk, tk))
    chains += c3 if tier == "thorough" else rng.sample(c3, 120)
    if tier == "thorough":
        c4 = list(itertools.product(tk, repeat=4))
        chains += rng.sample(c4, 500)
    for su, re_, chain in itertools.product(SETUPS, REPLACE, chains):
        if tier == "quick" and rng.random() > 0.12:
            continue
        # the replacement and the later touches are issued from the root with relative paths, with absolute paths, or with
        # absolute paths through the handle of another group (one that is new in the newest container / one from the base)
        via = rng.choice(["root", "root", "abs", "new-handle", "old-handle"])
        def v(o):
            if via == "root" or not o or o[0] in ("commit", "reopen"):
                return o
            o = [o[0], "/" + o[1].lstrip("/")] + o[2:]
            return o if via == "abs" else ["at", "H" if via == "new-handle" else "O", o]
        ops = list(SETUPS[su]) + ([["grp", "O"]] if via == "old-handle" else []) + [["commit"]]
        ops += ([["grp", "H"]] if via == "new-handle" else []) + [v(o) for o in REPLACE[re_]]
        for i, t in enumerate(chain):
            ops.append(["commit"] if rng.random() < 0.85 else ["reopen", "r+"])
            if via == "new-handle":
                ops.append(["rgrp", "H"] if i % 2 else ["grp", f"H/n{i}"])
            ops += [v([(x.replace("{i}", str(i)) if isinstance(x, str) else x) for x in o]) for o in TOUCH[t]]
        out.append(ops)
    # other named shapes
    extra = [
        # delete then recreate deeper (same patch / next patch)
        [["set", "c/b/a", ["int", 1]], ["commit"], ["del", "c"], ["grp", "c/b/a"]],
        [["set", "c/b/a", ["int", 1]], ["commit"], ["del", "c"], ["rgrp", "c/b/a"]],
        [["set", "c/b/a", ["int", 1]], ["commit"], ["del", "c"], ["commit"], ["grp", "c/b/a"]],
        [["set", "c/b/a", ["int", 1]], ["commit"], ["del", "c/b"], ["set", "c/b/a/d", ["int", 2]]],
        [["set", "c", ["int", 1]], ["commit"], ["del", "c"], ["set", "c/b", ["int", 2]], ["commit"], ["set", "c/d", ["int", 3]]],
        # a creation that HDF5 refuses, below / at a path deleted in this patch or an older one: no effect
        [["set", "a/x", ["int", 1]], ["commit"], ["del", "a"], ["set", "a/b", ["unstorable"]]],
        [["set", "a/g/y", ["int", 1]], ["sattr", "a", "k", ["int", 2]], ["commit"], ["del", "a"], ["set", "a/g/z", ["unstorable"]], ["commit"], ["sattr", "/", "t", ["int", 1]]],
        [["set", "a", ["int", 1]], ["commit"], ["del", "a"], ["set", "a/b", ["unstorable"]]],
        [["set", "a/x", ["int", 1]], ["commit"], ["del", "a/x"], ["set", "a/x/deep/er", ["unstorable"]]],
        [["set", "a/x", ["int", 1]], ["commit"], ["del", "a"], ["commit"], ["set", "a/b/c", ["unstorable"]], ["set", "a", ["unstorable"]]],
        [["set", "a/x", ["int", 1]], ["commit"], ["del", "a"], ["at", "/", ["set", "/a/b", ["unstorable"]]], ["grp", "a"]],
        # copies / moves of nodes living in older containers
        [["set", "a/x", ["int", 1]], ["sattr", "a", "k", ["int", 2]], ["commit"], ["copy", "a", "b"], ["commit"], ["del", "a"], ["commit"], ["sattr", "b", "z", ["int", 3]]],
        [["set", "a/x", ["int", 1]], ["sattr", "a/x", "k", ["int", 2]], ["commit"], ["move", "a", "b/c"], ["commit"], ["set", "a/x", ["int", 5]]],
        [["set", "a/x", ["int", 1]], ["commit"], ["move", "a/x", "a/y"], ["commit"], ["move", "a/y", "a/x"], ["commit"], ["sattr", "a/x", "k", ["int", 1]]],
        # copy of a group into its own subtree, base and patch mode
        [["set", "a/x", ["int", 1]], ["set", "a/g/y", ["int", 2]], ["copy", "a", "a/g/c"]],
        [["set", "a/x", ["int", 1]], ["set", "a/g/y", ["int", 2]], ["commit"], ["copy", "a", "a/g/c"]],
        [["set", "a/x", ["int", 1]], ["commit"], ["copy", "a", "a/c"], ["commit"], ["copy", "a", "a/c/d"]],
        # attribute-only histories on root and datasets
        [["sattr", "/", "k", ["int", 1]], ["commit"], ["dattr", "/", "k"], ["commit"], ["sattr", "/", "k", ["int", 2]], ["commit"], ["dattr", "/", "k"]],
        [["set", "d", ["int", 1]], ["sattr", "d", "k", ["int", 1]], ["commit"], ["del", "d"], ["set", "d", ["int", 2]], ["commit"], ["sattr", "d", "j", ["int", 3]]],
        [["set", "d", ["int", 1]], ["sattr", "d", "k", ["int", 1]], ["commit"], ["dattr", "d", "k"], ["commit"], ["sattr", "d", "j", ["int", 3]], ["commit"], ["del", "d"], ["grp", "d"]],
        # dataset <-> group flips across containers
        [["set", "a", ["int", 1]], ["commit"], ["del", "a"], ["grp", "a"], ["commit"], ["del", "a"], ["set", "a", ["int", 2]], ["commit"], ["sattr", "a", "k", ["int", 3]]],
        [["grp", "a/b"], ["commit"], ["del", "a/b"], ["set", "a/b", ["int", 2]], ["commit"], ["del", "a/b"], ["commit"], ["set", "a/b/c", ["int", 3]]],
    ]
    return out + extra


ALPHA = [
    ["set", "a", ["int", 11]], ["set", "a/b", ["int", 12]], ["set", "a/b/c", ["int", 13]],
    ["grp", "a"], ["grp", "a/b"], ["del", "a"], ["del", "a/b"],
    ["sattr", "a", "k", ["int", 14]], ["dattr", "a", "k"], ["sattr", "a/b", "k", ["int", 15]],
    ["copy", "a/b", "a/e"], ["rgrp", "a/b/c"],
]
BASE = [["grp", "a"], ["sattr", "a", "k", ["int", 1]], ["set", "a/b/c", ["int", 2]],
        ["sattr", "a/b", "k", ["int", 3]], ["commit"]]


def exhaustive_histories(maxlen):
    for n in range(1, maxlen + 1):
        for seq in itertools.product(range(len(ALPHA)), repeat=n):
            for mask in range(2 ** (n - 1)):
                ops = list(BASE)
                for j, s in enumerate(seq):
                    ops.append(ALPHA[s])
                    if j < n - 1 and mask >> j & 1:
                        ops.append(["commit"])
                yield ops


# ---------------------------------------------------------------- runner interface


def units(tier, seed):
    us = []
    nrand, per = (450, 30) if tier == "quick" else (6000, 100)
    for i in range(nrand // per):
        us.append({"gen": "random", "seed": seed * 100003 + i, "n": per})
    th = template_histories(tier, seed)
    for i in range(0, len(th), 40):
        us.append({"gen": "templates", "ops": th[i:i + 40]})
    # bounded-exhaustive part: quick = all sequences of length <= 2 (all masks) + a sample of length 3;
    # thorough = all sequences of length <= 4 with all boundary masks
    # (thorough: all sequences of length <= 3 with all masks + 40000 sampled sequences of length 4)
    maxlen = 2 if tier == "quick" else 3
    total = sum(1 for _ in exhaustive_histories(maxlen))
    chunk = 100 if tier == "quick" else 2000
    for i in range(0, total, chunk):
        us.append({"gen": "exhaustive", "maxlen": maxlen, "lo": i, "hi": min(total, i + chunk)})
    n2, n3 = total, sum(1 for _ in exhaustive_histories(maxlen + 1))
    idx = sorted(random.Random(seed).sample(range(n2, n3), 600 if tier == "quick" else 12000))
    step = 50 if tier == "quick" else 500
    for i in range(0, len(idx), step):
        us.append({"gen": "exhaustive-sample", "maxlen": maxlen + 1, "idx": idx[i:i + step]})
    random.Random(seed).shuffle(us)
    return us


def run_unit(u, acc):
    if u["gen"] == "random":
        gen_random(u["seed"], u["n"], acc)
        acc.count("gen.random", u["n"])
    elif u["gen"] == "templates":
        for ops in u["ops"]:
            check_history(ops, acc, "template")
            acc.sample({"generator": "template", "ops": ops}) if acc.evaluations % 97 == 0 else None
        acc.count("gen.template", len(u["ops"]))
    elif u["gen"] == "exhaustive-sample":
        want = set(u["idx"])
        for j, ops in enumerate(exhaustive_histories(u["maxlen"])):
            if j in want:
                check_history(ops, acc, "exhaustive")
        acc.count("gen.exhaustive_sampled", len(want))
    else:
        for ops in itertools.islice(exhaustive_histories(u["maxlen"]), u["lo"], u["hi"]):
            check_history(ops, acc, "exhaustive")
        acc.count("gen.exhaustive", u["hi"] - u["lo"])
    if not acc.samples:
        acc.sample({"generator": u["gen"], "note": "see counters; ops of one case", "unit": {k: v for k, v in u.items() if k != "ops"}})


EXHAUSTIVE = {}  # only one of three generators is exhaustive; not claimed for the whole check


def inconclusive(cov):
    c = cov["counters"]
    r = []
    if not c.get("histories_with_cross_container_touch"):
        r.append("no history touched an entity of an older container")
    if c.get("observations", 0) == 0:
        r.append("no observation compared")
    return r


def replay(case, acc):
    check_history(case["ops"], acc, case.get("generator", "replay"))
