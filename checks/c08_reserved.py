"""C08 — reserved metador_* namespace invisible and untouchable: (a) protocol enumeration with reserved
paths in every path position, (b) visibility monitor on container histories vs. a plain tree."""
from __future__ import annotations

import gc
import inspect
import random

import h5py

from vlib import contcheck as CC
from vlib import conteng as CE
from vlib import families as F
from vlib import h5eng as E
from vlib import tocoracle

PROPERTY = "C08"
LEVEL = "exploration"
RULE = (
    "(a) protocol enumeration recomputed from the live classes: every public callable of MetadorGroup/MetadorContainer "
    "and every member of the H5GroupLike/H5FileLike protocols incl. forwarded dunders, each called with reserved paths "
    "(existing and non-existing, relative/absolute/nested, from root and sub-groups, also as copy(name=...) and with node "
    "objects) in every path position; a call must be rejected (raise; False for membership) AND leave the raw tree "
    "byte-for-byte as dumped before; near-miss names (xmetador_, my_metador_x, Metador_container, metadorx) must work "
    "as ordinary names. (b) visibility monitor: the container histories of C06 on all drivers; after every operation the "
    "user-visible tree (two walkers, probes) and every listing form (keys, iter, items, values, len, reversed, visit, "
    "visititems) at every group == plain h5py reference tree of the same user operations; statuses equal. "
    "non-trivial = probe with a reserved path / history with >=2 attachments and a structural operation."
)
ANCHORS = ["src/metador_core/container/wrappers.py", "src/metador_core/container/utils.py"]
ASSUMPTIONS = ["a method unknown to the harness is probed generically with (path) and (path, value)"]
WORKERS = {"quick": 14, "thorough": 16}
MON = {"vis"}

RESERVED = ["metador_container", "/metador_container/links", "metador_container/uuid", "g/metador_meta_", "g/metador_meta_d",
            "/g/metador_meta_d/x=1", "metador_x", "a/metador_new/b", "./metador_container", "g//metador_meta_", "metador_",
            "/g/sub/metador_meta_", "g/metador_meta_/core.dir__0.1.0=zz",
            # '..' is an ordinary link name for h5py/IH5, a lexical normalisation must not make the reserved segment vanish
            "metador_foo/..", "metador_container/../x", "g/metador_meta_/../y", "g/sub/../metador_meta_d"]
# h5py accepts bytes names: the same reserved paths as bytes objects must be refused as well
RESERVED += [b"metador_container", b"/metador_container/links", b"g/metador_meta_d", b"metador_x", b"g/sub/metador_meta_"]
NEAR = ["xmetador_", "my_metador_x", "Metador_container", "metadorx", "g/xmetador_meta_"]


def raw_dump(raw):
    n = tocoracle.raw_nodes(raw)
    out = {}
    for p, v in n.items():
        out[p] = ["D", E.norm(v[1])] if v[0] == "D" else ["G"]
    # attributes of user nodes too
    def f(name, node):
        out["/" + name].append({k: E.norm(x) for k, x in node.attrs.items()})
    raw.visititems(f)
    return out


def setup(d, driver):
    F.register()
    sub = CE.Subject(d, driver)
    mc = sub.mc
    mc["g/d"] = 1
    mc["g/sub/e"] = [1, 2]
    mc["top"] = "x"
    mc["g"].attrs["a"] = 1
    from metador_core.plugins import schemas
    Dir = schemas.get("core.dir", (0, 1, 0))
    Mat = schemas.get("example.matsci.material", (0, 1, 0))
    mc["g"].meta[Dir] = Dir()
    mc["g/d"].meta[Mat] = Mat(materialName="m")
    mc["g/sub"].meta[Dir] = Dir(name="s")
    mc.meta[Dir] = Dir(name="root")
    if driver != "h5":
        sub.boundary("commit")
    return sub


def _reserved_segment(path):
    if isinstance(path, bytes):
        return next(x for x in path.strip(b"/").split(b"/") if x.startswith(b"metador_"))
    return next(x for x in path.strip("/").split("/") if x.startswith("metador_"))


def templates(method, path, mc, grp):
    """Argument tuples with `path` in every path position for known methods; generic probes otherwise."""
    node_src, node_grp = mc["g/d"], mc["g/sub"]
    t = {
        "__getitem__": [((path,), {})], "get": [((path,), {}), ((path, None), {})], "__contains__": [((path,), {})],
        "__delitem__": [((path,), {})], "__setitem__": [((path, 5), {})],
        "create_group": [((path,), {})], "require_group": [((path,), {})],
        "create_dataset": [((path,), {"data": 5})], "require_dataset": [((path,), {"shape": (1,), "dtype": "i8"})],
        "move": [((path, "zz_dst"), {}), (("top", path), {}), (("g/d", path), {})],
        "copy": [((path, "zz_dst"), {}), (("top", path), {}), (("g/d", path), {}), ((node_src, path), {}),
                 ((node_src, node_grp), {"name": _reserved_segment(path)}),
                 ((node_src, node_grp), {"name": path}),
                 ((path, node_grp), {})],
    }
    # the path arguments by KEYWORD (parameter names of the h5py / IH5 signatures; the same call with a user path works)
    kw = {
        "create_group": [((), {"name": path})], "require_group": [((), {"name": path})],
        "create_dataset": [((), {"name": path, "data": 5}), ((), {"path": path, "data": 5})],
        "require_dataset": [((), {"name": path, "shape": (1,), "dtype": "i8"})],
        "get": [((), {"name": path})],
        "move": [((), {"source": path, "dest": "zz_dst"}), (("top",), {"dest": path})],
        "copy": [((), {"source": path, "dest": "zz_dst"}), (("top",), {"dest": path}), ((node_src,), {"dest": path})],
    }
    if method in t:
        return t[method] + kw.get(method, [])
    return [((path,), {}), ((path, 5), {})]


def enum_methods():
    from metador_core.container import MetadorContainer, MetadorGroup
    from metador_core.util.types import H5FileLike, H5GroupLike
    names = set()
    for cls in (MetadorGroup, MetadorContainer):
        for k in cls.__mro__:
            if k.__module__.startswith("metador_core"):
                names.update(n for n, v in vars(k).items() if callable(v))
    for proto in (H5GroupLike, H5FileLike):
        for k in proto.__mro__:
            if k.__module__.startswith("metador_core"):
                names.update(n for n, v in vars(k).items() if callable(v))
    names -= set(dir(object))  # generic object protocol is not part of the group/file protocol
    names.update(["__getitem__", "__setitem__", "__delitem__", "__contains__", "get", "copy", "move",
                  "create_group", "require_group", "create_dataset", "require_dataset"])
    skip = {"__init__", "__new__", "__enter__", "__exit__", "__repr__", "__dir__", "__getattr__", "__class_getitem__",
            "__init_subclass__", "__subclasshook__", "close", "restrict", "_parse_access_flags", "__len__", "__iter__",
            "keys", "values", "items", "visit", "visititems", "_child_node_kwargs", "_wrap_if_node", "_destroy_meta",
            "_guard_path", "_guard_acl", "__reversed__", "__hash__", "__eq__", "__bool__", "flush", "__call__",
            "_is_protocol", "_proto_hook", "_no_init_or_replace_init", "__protocol_attrs__", "__non_callable_proto_members__"}
    return sorted(n for n in names if n not in skip and not n.startswith("_abc"))


HANDLES = ("/", "g", "g/sub", "g|local_only", "/|skel_only", "g|read_only", "g|local_only>sub")


def protocol_probes(acc, d, driver, seed, handles=HANDLES, near=True):
    rng = random.Random(seed)
    sub = setup(d, driver)
    mc = sub.mc
    try:
        methods = enum_methods()
        acc.count("methods_enumerated", len(methods))
        for mname in methods:
            acc.seen("methods", mname)
        def handle(gname):
            """Group handles: plain, and restricted ones (restrictions add refusals, they never open the reserved namespace)."""
            if gname == "/":
                return mc
            if "|" not in gname:
                return mc[gname]
            path, flag = gname.split("|")
            return mc[path].restrict(**{flag: True})  # (mc["/"] is a fresh wrapper of the root group: restrict() works in place)
        for gname in handles:
            if ">" in gname:
                grp = handle(gname.split(">")[0])[gname.split(">")[1]]  # child reached from a restricted handle
            else:
                grp = handle(gname)
            acc.count("probe_handles." + (gname.split("|")[1] if "|" in gname else "plain"))
            paths = RESERVED if "|" not in gname else [p_ for p_ in RESERVED if isinstance(p_, str) and not p_.startswith("/")][::2] + RESERVED[1:2]
            for path in paths:
                for mname in methods:
                    fn = getattr(type(grp), mname, None)
                    if fn is None:
                        continue
                    for args, kw in templates(mname, path, mc, grp):
                        before = raw_dump(sub.raw)
                        desc = [driver, gname, mname, [a if isinstance(a, (str, int)) else repr(a) if isinstance(a, bytes) else "<node>" for a in args],
                                {k: repr(v) if isinstance(v, bytes) else v for k, v in kw.items()}]
                        acc.case(desc, nontrivial=True)
                        acc.count("probes")
                        if isinstance(path, bytes):
                            acc.count("bytes_path_probes")
                        try:
                            res = getattr(grp, mname)(*args, **kw)
                            rejected = (mname == "__contains__" and res is False) or (mname == "get" and res is None and False)
                            returned = res
                        except Exception as e:
                            rejected, returned = True, None
                        after = raw_dump(sub.raw)
                        if after != before:
                            ch = sorted(set(after) ^ set(before)) or [k for k in after if after[k] != before.get(k)]
                            acc.violation(f"reserved-path-effect:{mname}", f"{mname}{tuple(desc[3])} {kw} at {gname} changed the raw tree: {ch[:3]} (call {'raised' if rejected else 'returned'})",
                                          {"kind": "probe", "driver": driver, "group": gname, "method": mname, "path": repr(path) if isinstance(path, bytes) else path})
                            sub.close(); gc.collect()
                            sub = setup(acc.newdir("c8r"), driver); mc = sub.mc
                            grp = handle(gname.split(">")[0])[gname.split(">")[1]] if ">" in gname else handle(gname)
                        elif not rejected:
                            acc.violation(f"reserved-path-accepted:{mname}", f"{mname}{tuple(desc[3])} {kw} at {gname} returned {returned!r} instead of being rejected",
                                          {"kind": "probe", "driver": driver, "group": gname, "method": mname, "path": repr(path) if isinstance(path, bytes) else path})
        # near misses must work as ordinary names
        for nm in (NEAR if near else ()):
            acc.count("near_miss_probes")
            try:
                mc[nm] = 3
                ok = nm in mc and mc[nm][()] == 3 and nm.split("/")[-1] in list((mc["g"] if "/" in nm else mc).keys())
                mc.copy(nm, nm + "_c")
                mc.move(nm + "_c", nm + "_m")
                del mc[nm]
                del mc[nm + "_m"]
            except Exception as e:
                acc.violation("near-miss-refused", f"ordinary name {nm!r} refused: {type(e).__name__}: {e}", {"kind": "near", "name": nm, "driver": driver})
                continue
            if not ok:
                acc.violation("near-miss-hidden", f"ordinary name {nm!r} not visible", {"kind": "near", "name": nm, "driver": driver})
        acc.sample({"driver": driver, "reserved_paths": RESERVED[:5], "methods": methods[:12]})
    finally:
        sub.close()
        gc.collect()


def units(tier, seed):
    us = [{"kind": "proto", "driver": d, "seed": seed, "handle": h} for d in ("h5", "ih5", "ih5mf") for h in HANDLES]
    us += [dict(u, kind="vis") for u in CC.make_units(tier, seed, 300, 3600)]
    return us


def run_unit(u, acc):
    if u["kind"] == "proto":
        d = acc.newdir("c8")
        try:
            protocol_probes(acc, d, u["driver"], u["seed"], handles=(u["handle"],) if "handle" in u else HANDLES, near=u.get("handle", "/") == "/")
        finally:
            acc.rmdir(d, collect=True)
    else:
        CC.run_units(u, acc, MON)


def inconclusive(cov):
    c = cov["counters"]
    return [f"monitor counter {k} is zero" for k in ("probes", "bytes_path_probes", "near_miss_probes", "listings") if not c.get(k)]


def replay(case, acc):
    if case.get("kind") in ("probe", "near"):
        d = acc.newdir("c8")
        try:
            protocol_probes(acc, d, case["driver"], 0)
        finally:
            acc.rmdir(d, collect=True)
    else:
        CC.check_case(acc, case, MON)
