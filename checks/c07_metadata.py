"""C07 — metadata comes back as stored; queries are exact (shadow map + brute force)."""
from vlib import contcheck as CC

PROPERTY = "C07"
LEVEL = "exploration"
RULE = (
    "the container histories of C06 with a harness-side shadow map path -> {schema: stored object}. After operations "
    "that touch metadata (and at sampled steps): for sampled nodes meta.keys()/len/iteration/membership (by name, "
    "(name,version), class), meta.get/[] == stored object, every ancestor on parent_path yields an instance of the "
    "ancestor class equal to the parent projection, duplicate/auxiliary/unknown/invalid attachments are refused (status "
    "vs. shadow); query result sets for sampled schema names x version arguments {None, each registered, lower/higher "
    "minor, other major} x start nodes {root, groups, datasets} x three entry points == brute-force set from the shadow "
    "map and the plugin system (never the container's own maps). non-trivial = >=2 attachments and >=1 structural "
    "operation; distinct = hash of the op list."
)
ANCHORS = ["src/metador_core/container/interface.py", "src/metador_core/schema/plugins.py", "src/metador_core/schema/pg.py"]
ASSUMPTIONS = ["version-compatible = requested (name, v) supports the stored reference: same major, requested minor >= stored minor",
               "single-handle discipline for kept MetadorMeta handles (a kept handle is dropped when its node is touched otherwise)"]
WORKERS = {"quick": 14, "thorough": 16}
MON = {"meta", "query"}


def units(tier, seed):
    return CC.make_units(tier, seed, 240, 2400, per=5)


def run_unit(u, acc):
    CC.run_units(u, acc, MON)


def inconclusive(cov):
    c = cov["counters"]
    return [f"monitor counter {k} is zero" for k in ("meta_reads.fresh", "meta_reads.kept", "parent_views", "queries", "ops.badmeta.fail") if not c.get(k)]


def replay(case, acc):
    CC.check_case(acc, case, MON)
