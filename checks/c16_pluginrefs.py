"""C16 — plugin references: order axioms, supports, version tables / resolve, name codec, UndefVersion."""
from __future__ import annotations

import itertools
import random
import re

PROPERTY = "C16"
LEVEL = "exploration"
RULE = (
    "order/equality/hash/supports: EXHAUSTIVE over all pairs of the 324 references {aa,ab} x {aa.bb,aa.bc} x {0,1,2}^3 x "
    "{plain PluginRef, two SIBLING subclasses}, transitivity over triples (sampled in quick, all 1.26M in "
    "thorough), sorted() vs sort by key. Version tables: every subset of <=3 (quick; thorough <=4) versions of a "
    "12-element pool in EVERY registration order through both registration paths (_add_ep on a fresh plugin-group "
    "instance with synthetic entry points; register_in_group with generated schema classes), every request version of "
    "the pool, against a 10-line specification of versions()/resolve(). Name codec on generated qualified names and "
    "multi-digit versions. get(name) without version must not be subclassable. "
    "non-trivial = pair with different references / table with >=2 versions; distinct = the case itself."
)
ANCHORS = ["src/metador_core/schema/plugins.py", "src/metador_core/plugin/interface.py", "src/metador_core/plugin/types.py",
           "src/metador_core/plugin/metaclass.py", "src/metador_core/plugin/util.py"]
ASSUMPTIONS = ["the specification of supports/resolve is the one stated in the property"]
WORKERS = {"quick": 8, "thorough": 16}
EXHAUSTIVE = {"thorough": True}

GROUPS, NAMES = ["aa", "ab"], ["aa.bb", "aa.bc"]
VERS = list(itertools.product(range(3), repeat=3))
POOL = [(0, 1, 0), (0, 1, 1), (0, 2, 0), (0, 2, 3), (0, 10, 0), (1, 0, 0), (1, 0, 2), (1, 1, 0), (1, 3, 1), (2, 0, 0), (2, 1, 0), (10, 0, 0)]


def key(r):
    return (r.group, r.name, tuple(r.version))


def spec_supports(a, b):
    return a.group == b.group and a.name == b.name and a.version[0] == b.version[0] and a.version[1] >= b.version[1]


_refs = []


def all_refs():
    """Every (group, name, version) in THREE class variants: plain PluginRef and two sibling subclasses (two independent
    results of _subclass_for, as different plugin groups / user marker classes produce them)."""
    if _refs:
        return _refs
    from metador_core.schema.plugins import PluginRef
    subs_a = {g: PluginRef._subclass_for(g) for g in GROUPS}
    subs_b = {g: PluginRef._subclass_for(g) for g in GROUPS}

    class Marker(PluginRef):
        """user-defined marker subclass (the docstring of PluginRef invites these)"""

    for g, n, v in itertools.product(GROUPS, NAMES, VERS):
        _refs.append(PluginRef(group=g, name=n, version=v))
        _refs.append(subs_a[g](name=n, version=v))
        _refs.append(subs_b[g](name=n, version=v) if (len(_refs) // 3) % 2 else Marker(group=g, name=n, version=v))
    return _refs


NREFS = 108 * 3


def check_pairs(acc, lo, hi):
    refs = all_refs()
    n = len(refs)
    for idx in range(lo, hi):
        a, b = refs[idx // n], refs[idx % n]
        ka, kb = key(a), key(b)
        acc.case(["pair", idx], nontrivial=ka != kb or type(a) is not type(b))
        if ka == kb and type(a) is not type(b):
            acc.count("equal_value_pairs_across_classes")
        obs = {
            "in-list": a in [b], "set-size": len({a, b}) == 1,
            "==": a == b, "!=": a != b, "<": a < b, "<=": a <= b, ">": a > b, ">=": a >= b,
            "hash==": hash(a) == hash(b), "supports": a.supports(b),
        }
        want = {
            "in-list": ka == kb, "set-size": ka == kb,
            "==": ka == kb, "!=": ka != kb, "<": ka < kb, "<=": ka <= kb, ">": ka > kb, ">=": ka >= kb,
            "hash==": True if ka == kb else obs["hash=="], "supports": spec_supports(a, b),
        }
        acc.count("pair_observations", len(obs))
        for op in obs:
            if bool(obs[op]) != want[op] or (op != "hash==" and not isinstance(obs[op], bool)):
                sit = "equal" if ka == kb else "different"
                acc.violation(f"order:{op}:{sit}" if op != "supports" else "supports",
                              f"{ka} {op} {kb} gave {obs[op]!r}, specification says {want[op]}",
                              {"kind": "pair", "a": ka, "b": kb})
                break
    # sorted
    rng = random.Random(lo)
    sample = rng.sample(refs, 30)
    try:
        got = [key(r) for r in sorted(sample)]
    except Exception as e:
        got = f"raised {type(e).__name__}"
    acc.count("sort_checks")
    if got != sorted(key(r) for r in sample):
        acc.violation("order:sorted", f"sorted() of {len(sample)} references is not the order by (group, name, version)",
                      {"kind": "sorted", "seed": lo})


def check_triples(acc, seed, n, exhaustive_slice=None):
    refs = all_refs()
    rng = random.Random(seed)
    if exhaustive_slice is not None:
        it = ((refs[exhaustive_slice], b, c) for b in refs for c in refs)
    else:
        it = ((rng.choice(refs), rng.choice(refs), rng.choice(refs)) for _ in range(n))
    bad = 0
    for a, b, c in it:
        acc.count("triples")
        if (a <= b) and (b <= c) and not (a <= c):
            bad += 1
            acc.violation("order:transitivity", f"{key(a)} <= {key(b)} <= {key(c)} but not {key(a)} <= {key(c)}",
                          {"kind": "triple", "refs": [key(a), key(b), key(c)]})
        if (a < b) and (b < c) and not (a < c):
            acc.violation("order:transitivity", f"< not transitive on {key(a)}, {key(b)}, {key(c)}",
                          {"kind": "triple", "refs": [key(a), key(b), key(c)]})
    acc.case(["triples", seed, exhaustive_slice], nontrivial=True)


# ------------------------------------------------------------------ version tables


class _Dist:
    name = "verif-c16"
    version = "1.0.0"


def spec_versions(regd, name, group, req=None):
    vs = sorted(set(v for (n, v) in regd if n == name))
    if req is None:
        return vs
    return [v for v in vs if v[0] == req[0] and v[1] >= req[1]]


def check_table_ep(acc, order, other):
    """order: list of versions registered for aa.tt (in this order) through _add_ep on a fresh group instance."""
    import importlib_metadata
    from metador_core.plugin.types import to_ep_group_name, to_ep_name
    from metador_core.plugins import schemas
    G = type(schemas.__wrapped__ if hasattr(schemas, "__wrapped__") else schemas)({})
    regd = []
    seq = [("aa.tt", v) for v in order]
    for j, v in enumerate(other):  # a second plugin name interleaved
        seq.insert(min(len(seq), 2 * j + 1), ("aa.ttx" if j % 2 else "aa.tt-x", v))
    for n, v in seq:
        epn = to_ep_name(n, v)
        ep = importlib_metadata.EntryPoint(epn, "checks.c16_pluginrefs:nothing", to_ep_group_name("schema"))._for(_Dist)
        G._add_ep(epn, ep)
        regd.append((n, v))
        # the table must be right after EVERY registration step (answers given earlier must not stick)
        judge_table(acc, G, list(regd), "entry-points", {"path": "ep", "order": order, "other": other, "after": len(regd)}, count_case=False)
    return judge_table(acc, G, regd, "entry-points", {"path": "ep", "order": order, "other": other})


_ctr = [0]


def check_table_reg(acc, order):
    from metador_core.plugin.util import register_in_group
    from metador_core.plugins import schemas
    from typing import Optional
    from metador_core.schema import MetadataSchema
    from metador_core.schema.types import Int, Str
    _ctr[0] += 1
    name = f"vt.c{acc.shard}x{_ctr[0]}"
    regd = []
    for v in order:
        P = type("Plugin", (), {"name": name, "version": v})
        cls = type(MetadataSchema)(f"T{_ctr[0]}", (MetadataSchema,), {"Plugin": P, "__module__": __name__})
        register_in_group(schemas, cls, violently=True)
        regd.append((name, v))
        if len(regd) % 2 == 1:
            # a registration that the group's checks REFUSE (undeclared widening of an inherited field) leaves no trace
            bad_v = (v[0], v[1], v[2] + 7)
            Base = type(MetadataSchema)(f"B{_ctr[0]}", (MetadataSchema,), {"__annotations__": {"x": Int}, "__module__": __name__})
            for aux in (False, True):
                PB = type("Plugin", (), {"name": name, "version": bad_v, "auxiliary": aux})
                Bad = type(MetadataSchema)(f"Bad{_ctr[0]}", (Base,), {"Plugin": PB, "__annotations__": {"x": Optional[Str]}, "__module__": __name__})
                acc.count("refused_registrations")
                try:
                    register_in_group(schemas, Bad, violently=True)
                    acc.violation("refused-registration-accepted", f"schema with an undeclared widening (x: Int -> Optional[Str]) registered without complaint (auxiliary={aux})",
                                  {"path": "reg", "order": order})
                    return
                except (TypeError, ValueError):
                    pass
                got = None
                try:
                    got = schemas.get(name, bad_v)
                except Exception:
                    pass
                if got is Bad or any(tuple(r.version) == bad_v for r in schemas.versions(name)):
                    acc.violation("refused-registration-sticks", f"a registration refused with an error is in effect afterwards: get({name!r}, {bad_v}) -> {got}, "
                                                                f"versions -> {[tuple(r.version) for r in schemas.versions(name)]} (auxiliary={aux})", {"path": "reg", "order": order})
                    return
        judge_table(acc, schemas, list(regd), "register_in_group", {"path": "reg", "order": order, "after": len(regd)}, names=[name], count_case=False)
    return judge_table(acc, schemas, regd, "register_in_group", {"path": "reg", "order": order}, names=[name])


def judge_table(acc, G, regd, path, case, names=None, count_case=True):
    names = names or sorted({n for n, _ in regd})
    if count_case:
        acc.case([path, case], nontrivial=len(regd) >= 2)
    for name in names:
        want = spec_versions(regd, name, "schema")
        # what a caller does with the lists it is handed (re-sorting for display, emptying) is not the group's business
        for handed in (G.versions(name), G.versions(name, POOL[0]), list(G.keys()) if False else G.versions(name)):
            try:
                handed.reverse()
                handed.clear()
            except Exception:
                pass
        acc.count("handed_out_lists_scribbled")
        got = [tuple(r.version) for r in G.versions(name)]
        acc.count("table_observations")
        if got != want:
            acc.violation(f"versions:{path}", f"versions({name!r}) = {got}, registered {[v for n, v in regd if n == name]} (expected ascending {want})", case)
            return
        for req in POOL:
            w = spec_versions(regd, name, "schema", req)
            g = [tuple(r.version) for r in G.versions(name, req)]
            r = G.resolve(name, req)
            acc.count("table_observations", 2)
            if g != w:
                acc.violation(f"versions-compatible:{path}", f"versions({name!r}, {req}) = {g}, expected {w}", case)
                return
            if (tuple(r.version) if r else None) != (w[-1] if w else None):
                acc.violation(f"resolve:{path}", f"resolve({name!r}, {req}) = {tuple(r.version) if r else None}, expected {w[-1] if w else None} with {want} registered", case)
                return
        r = G.resolve(name)
        if (tuple(r.version) if r else None) != (want[-1] if want else None):
            acc.violation(f"resolve:{path}", f"resolve({name!r}) = {r}, expected newest {want[-1]}", case)
            return


def nothing():  # target of the synthetic entry points (never loaded)
    pass


# ------------------------------------------------------------------ codec + UndefVersion


def check_codec(acc, seed, n):
    from metador_core.plugin.types import EPName, from_ep_name, to_ep_name
    rng = random.Random(seed)
    L, AN = "abcdefghijklmnopqrstuvwxyz", "abcdefghijklmnopqrstuvwxyz0123456789"
    def uname():
        s = rng.choice(L) + rng.choice(AN)
        for _ in range(rng.randint(0, 4)):
            s += rng.choice(["", "_", "-"]) + rng.choice(AN)
        return s
    for _ in range(n):
        name = ".".join(uname() for _ in range(rng.randint(1, 5)))
        ver = tuple(rng.choice([0, 1, 9, 10, 99, 123456]) for _ in range(3))
        acc.case(["codec", name, ver], nontrivial=True)
        acc.count("codec_roundtrips")
        try:
            ep = to_ep_name(name, ver)
            back = from_ep_name(EPName(ep))
        except Exception as e:
            acc.violation("codec", f"codec raised for valid name {name!r} {ver}: {type(e).__name__}: {e}", {"kind": "codec", "name": name, "ver": ver})
            continue
        if back != (name, ver) or tuple(back[1]) != ver:
            acc.violation("codec", f"from_ep_name(to_ep_name({name!r}, {ver})) = {back}", {"kind": "codec", "name": name, "ver": ver})


def check_undef(acc):
    """A class handed out without a stated version (get(name), group[name]) cannot be subclassed -- in whatever way the
    subclass is written; the same plugin handed out WITH a version can, in each of these ways."""
    from metador_core.plugins import schemas

    def bodies(tag):
        plug = type("Plugin", (), {"name": f"c16.sub{tag}", "version": (0, 1, 0)})
        return {
            "empty body": lambda: {},
            "own inner Plugin class": lambda: {"Plugin": plug},
            "inner Plugin = None": lambda: {"Plugin": None},
            "new annotated field": lambda: {"__annotations__": {"zz_extra": int}, "zz_extra": 0},
            "method only": lambda: {"helper": lambda self: 1},
        }

    class Mixin:
        pass

    for i, ref in enumerate(list(schemas.keys())[:12]):
        acc.case(["undef", ref.name], nontrivial=True)
        marked = {"get(name)": schemas.get(ref.name), "group[name]": schemas[ref.name]}
        versioned = schemas.get(ref.name, tuple(ref.version))
        for how, c0 in marked.items():
            for bname, body in bodies(i).items():
                for bases_name, bases in (("single base", (c0,)), ("with a mixin", (c0, Mixin)), ("mixin first", (Mixin, c0))):
                    acc.count("undef_checks")
                    try:
                        type(c0)("X", bases, body())
                    except TypeError:
                        continue
                    except Exception:
                        continue  # refused for another reason: still not subclassed
                    acc.violation("undefversion", f"class obtained by {how} for {ref.name!r} (no version stated) can be subclassed ({bname}, {bases_name})",
                                  {"kind": "undef", "name": ref.name})
                    break
        for bname, body in bodies(i).items():
            if bname in ("new annotated field",) and getattr(versioned.__config__, "extra", None) and str(versioned.__config__.extra).endswith("forbid"):
                continue  # (a parent that forbids extras rightly refuses new fields)
            acc.count("undef_controls")
            try:
                type(versioned)("Y", (versioned,), body())
            except TypeError as e:
                acc.violation("undefversion", f"class obtained WITH version cannot be subclassed ({bname}): {e}", {"kind": "undef", "name": ref.name})


# ------------------------------------------------------------------ runner interface


def orders(tier):
    maxk = 3 if tier == "quick" else 4
    out = []
    for k in range(1, maxk + 1):
        for sub in itertools.combinations(POOL, k):
            out.extend(itertools.permutations(sub))
    return out


def units(tier, seed):
    us = []
    npairs = NREFS * NREFS
    for lo in range(0, npairs, 6561):
        us.append({"kind": "pairs", "lo": lo, "hi": min(npairs, lo + 6561)})
    if tier == "quick":
        for i in range(8):
            us.append({"kind": "triples", "seed": seed * 17 + i, "n": 8000})
    else:
        for i in range(NREFS):
            us.append({"kind": "triples-ex", "slice": i})
    os_ = orders(tier)
    chunk = 400 if tier == "quick" else 1500
    for i in range(0, len(os_), chunk):
        us.append({"kind": "table-ep", "lo": i, "hi": min(len(os_), i + chunk)})
    regn = 60 if tier == "quick" else 3000
    for i in range(0, regn, 20):
        us.append({"kind": "table-reg", "seed": seed * 29 + i, "n": 20})
    us.append({"kind": "codec", "seed": seed, "n": 2000 if tier == "quick" else 40000})
    us.append({"kind": "undef"})
    return us


def run_unit(u, acc):
    k = u["kind"]
    if k == "pairs":
        check_pairs(acc, u["lo"], u["hi"])
        acc.sample({"kind": "pair", "a": ["aa", "aa.bb", [0, 1, 2]], "b": ["aa", "aa.bb", [0, 2, 0]]}) if u["lo"] == 0 else None
    elif k == "triples":
        check_triples(acc, u["seed"], u["n"])
    elif k == "triples-ex":
        check_triples(acc, 0, 0, exhaustive_slice=u["slice"])
    elif k == "table-ep":
        rng = random.Random(u["lo"])
        os_ = orders(acc.tier)
        for o in os_[u["lo"]:u["hi"]]:
            other = rng.sample(POOL, rng.randint(0, 2))
            check_table_ep(acc, list(o), other)
        acc.sample({"kind": "version table via entry points", "registration_order": [list(v) for v in os_[u["lo"]]]})
    elif k == "table-reg":
        rng = random.Random(u["seed"])
        for _ in range(u["n"]):
            o = rng.sample(POOL, rng.randint(1, 4))
            check_table_reg(acc, o)
    elif k == "codec":
        check_codec(acc, u["seed"], u["n"])
    else:
        check_undef(acc)


def inconclusive(cov):
    c = cov["counters"]
    return [f"monitor counter {k} is zero" for k in ("pair_observations", "triples", "table_observations", "codec_roundtrips", "undef_checks", "refused_registrations", "handed_out_lists_scribbled", "sort_checks", "equal_value_pairs_across_classes") if not c.get(k)]


def replay(case, acc):
    k = case.get("kind") or case.get("path")
    if k in ("pair", "sorted", "triple"):
        check_pairs(acc, 0, NREFS * NREFS)
        check_triples(acc, 0, 20000)
    elif k == "ep":
        check_table_ep(acc, [tuple(v) for v in case["order"]], [tuple(v) for v in case["other"]])
    elif k == "reg":
        check_table_reg(acc, [tuple(v) for v in case["order"]])
    elif k == "codec":
        check_codec(acc, 0, 2000)
    else:
        check_undef(acc)
