"""C11 — crash safety of patching: snapshots, torn user-block writes, LINE failpoints + SIGKILL,
random-instant SIGKILL; oracle on the crashed directory."""
from __future__ import annotations

import gc
import os
import random
import shutil
import signal
import sys
import time
from pathlib import Path

import numpy as np

import metador_core
from vlib import fsmon
from vlib import h5eng as E
from vlib import receng as RE
from vlib.opgen import DataGen

PROPERTY = "C11"
LEVEL = "fault_enumeration"
RULE = (
    "records with 1-3 committed containers (random histories, both classes); one patch cycle (open r+ = create patch, "
    "fill with generated operations, commit_patch, close) is crashed at: E1 every API-call boundary (directory snapshot "
    "with files still open), E2 every prefix length of the committing user-block write (new[:k]+old[k:]) and sampled "
    "prefixes of the sidecar write, E3 Python line boundaries inside metador_core/ih5/*.py and util/hashsums.py (forked "
    "child SIGKILLs itself at the k-th LINE event; quick: all events inside commit_patch/save/create_patch/_new_container "
    "+ a stratified sample, thorough: every k), E4 SIGKILL after a random log-uniform delay while large datasets are "
    "written. Oracle on the crashed directory: committed files byte-identical; committed files alone open and show the "
    "last committed state; complete set either fails to open, or opens with the newest container marked uncommitted, or "
    "opens committed showing exactly the state at commit_patch; every fourth record is crashed in the cycle that CREATES it "
    "(patch 0, the base container, nothing committed before). Recovery stage: on crashed sets that open, an ordinary "
    "session (open r+ / a, write, close) is run; if it succeeds, a read-only open must show what it saw before close, "
    "committed; merge_files on a set that opens uncommitted must not "
    "yield a cleanly opening container. non-trivial = crash inside the cycle (not before/after); "
    "distinct = (record, engine, crash point)."
)
ANCHORS = ["src/metador_core/ih5/record.py", "src/metador_core/ih5/manifest.py"]
ASSUMPTIONS = [
    "process death only (SIGKILL): the page cache survives; power loss is not modelled",
    "the expected new state is obtained from an uncrashed dry run of the same deterministic cycle",
]
WORKERS = {"quick": 12, "thorough": 16}

ROOT = os.path.dirname(metador_core.__file__)
mon = sys.monitoring
FP_ID = 5
_fp = {"n": 0, "kill_at": None, "on": False, "names": None}
_targets = (ROOT + "/ih5/", ROOT + "/util/hashsums.py")


def _fp_line(code, ln):
    f = code.co_filename
    if not f.startswith(_targets):
        return mon.DISABLE
    if not _fp["on"]:
        return
    _fp["n"] += 1
    if _fp["names"] is not None:
        _fp["names"].append(code.co_name)
    if _fp["n"] == _fp["kill_at"]:
        os.kill(os.getpid(), signal.SIGKILL)


def fp_enable():
    try:
        mon.use_tool_id(FP_ID, "verif-failpoints")
    except ValueError:
        pass
    mon.register_callback(FP_ID, mon.events.LINE, _fp_line)
    mon.set_events(FP_ID, mon.events.LINE)


def fp_disable():
    mon.set_events(FP_ID, 0)


# ---------------------------------------------------------------- the patch cycle (run in dry mode and in children)


def cycle(d, clsname, seed, big=0, snap=None, ready=None, want_state=False, create=False):
    """One patch cycle (create=True: the cycle that creates the record, i.e. writes patch 0, the base container).
    snap(tag, rec) is called after every API call in the dry run."""
    cls = RE.CLS[clsname]
    _fp["on"] = True
    rec = cls(Path(d) / "rec", "w" if create else "r+")
    if snap:
        snap("create_patch", rec)
    if ready:
        ready()
    rng = random.Random(seed)
    gen = DataGen(rng, boundaries=False, allow_self_copy=False)
    for _ in range(rng.randint(1, 6)):
        RE.fill(rec, gen, 1)
        if snap:
            snap("op", rec)
    for b in range(big):
        rec[f"big{b}"] = np.arange(250_000 * (b + 1), dtype="i8")
    rec.attrs["cycle"] = seed % 1000
    _fp["on"] = False
    view = E.dump_walk(rec)
    _fp["on"] = True
    if snap:
        snap("before-commit", rec)
    rec.commit_patch()
    if snap:
        snap("commit", rec)
    _fp["on"] = False
    state = rec_state(rec, d) if want_state else None
    _fp["on"] = True
    rec.close()
    _fp["on"] = False
    return (view, state) if want_state else view


# ---------------------------------------------------------------- oracle


def rec_state(rec, d):
    """Record-level committed state beyond the data tree: user-block extension sections of the newest
    container (on disk) and, for IH5MFRecord, the manifest the record presents (extensions, skeleton)."""
    import json as _json
    newest = Path(rec.ih5_files[-1])
    try:
        ub = RE.disk_ublock(newest)
        st = {"ub_ext_sections": sorted(ub.get("ub_exts", {}))}
    except Exception as e:
        st = {"ub_ext_sections": f"unreadable: {e}"}
    if isinstance(rec, RE.IH5MFRecord):
        try:
            m = rec.manifest
            st["manifest_exts"] = m.manifest_exts
            st["manifest_skeleton"] = _json.loads(m.skeleton.json())
        except Exception as e:
            st["manifest"] = f"NO MANIFEST ({type(e).__name__})"
    return st



def oracle(cls, d, committed, ledger, view_commit, view_new, state_commit=None, state_new=None):
    """-> (outcome, None) or (None, (kind, detail))."""
    d = Path(d)
    for name, sig in ledger.items():
        p = d / name
        if not p.exists():
            return None, ("committed-file-lost", f"{name} vanished")
        if fsmon.file_sig(p)[:2] != sig[:2]:
            return None, ("committed-file-changed", f"{name} differs from its committed bytes")
    if committed:
        r, err = RE.try_open(cls, [d / n for n in committed], "r")
        if r is None:
            return None, ("committed-set-unopenable", f"committed containers alone do not open: {err}")
        try:
            if E.dump_walk(r) != view_commit:
                return None, ("committed-set-state", "committed containers alone do not show the last committed state")
        finally:
            r.close()
    elif not any(p.name.endswith(".ih5") for p in d.iterdir()):
        return "nothing-created", None  # killed before the first container existed
    r, err = RE.try_open(cls, d / "rec", "r")
    if r is None:
        # a file set that does not open read-only must not open for patching either (on a scratch copy: r+/a may create files)
        for mode in ("r+", "a"):
            cp = d.parent / (d.name + "-rw")
            shutil.rmtree(cp, ignore_errors=True)
            shutil.copytree(d, cp)
            r2, _ = RE.try_open(cls, cp / "rec", mode)
            if r2 is not None:
                info = f"{len(r2.ih5_files)} containers"
                RE.safe_close(r2, commit=False)
                shutil.rmtree(cp, ignore_errors=True)
                return None, ("unopenable-set-opens-for-patching",
                              f"the crashed file set is refused in mode 'r' ({type(err).__name__}: {str(err)[:80]}) but opens cleanly in mode '{mode}' ({info})")
            shutil.rmtree(cp, ignore_errors=True)
        return "fails-to-open", None
    try:
        files = [Path(p).name for p in r.ih5_files]
        newest_committed = RE.is_committed_on_disk(d / files[-1])
        if not newest_committed:
            return "opens-uncommitted", None
        v = E.dump_walk(r)
        if len(files) == len(committed):
            if v != view_commit:
                return None, ("clean-open-wrong-state", "record opens cleanly at the old commit with another state")
            if state_commit is not None and rec_state(r, d) != state_commit:
                return None, ("clean-open-wrong-record-state", "record opens cleanly at the old commit but manifest/user-block extensions differ from the committed ones")
            return "opens-committed-old", None
        if v != view_new:
            df = E.diff_dumps(v, view_new)
            return None, ("clean-open-unwritten-state",
                          f"record opens cleanly (newest container carries a hash) with a state that was not written: {df[2] if df else ''}")
        if state_new is not None:
            got = rec_state(r, d)
            if got != state_new:
                k = next(k for k in set(got) | set(state_new) if got.get(k) != state_new.get(k))
                return None, ("clean-open-incomplete-commit",
                              f"record opens cleanly with the newest container marked committed, but it is not the fully committed state: "
                              f"{k} = {str(got.get(k))[:120]} (uncrashed commit: {str(state_new.get(k))[:120]})")
        return "opens-committed-new", None
    except Exception as e:
        return None, ("clean-open-unreadable", f"record opens cleanly but reading fails: {type(e).__name__}: {e}")
    finally:
        RE.safe_close(r, commit=False)
        gc.collect()


def launder(cls, d):
    """The crashed set opens with the interrupted patch marked uncommitted: no operation on the read-only record may turn that
    into a cleanly opening record (merge_files must refuse). -> None | (kind, detail)"""
    d = Path(d)
    r, err = RE.try_open(cls, d / "rec", "r")
    if r is None:
        return None
    out = d / "merged-out"
    out.mkdir(exist_ok=True)
    try:
        try:
            m = r.merge_files(out / "m")
        except Exception:
            return None
        finally:
            RE.safe_close(r, commit=False)
        r2, err = RE.try_open(cls, out / "m", "r")
        if r2 is None:
            return None
        try:
            clean = RE.is_committed_on_disk(Path(r2.ih5_files[-1]))
        finally:
            RE.safe_close(r2, commit=False)
        if clean:
            return ("uncommitted-state-merged-clean", "merge_files on the crashed set (newest container uncommitted, opened read-only) returns a container that opens cleanly, "
                                                      "carrying a payload hash for content that was never committed")
        return None
    finally:
        shutil.rmtree(out, ignore_errors=True)
        gc.collect()


def recovery(cls, d, mode, exts_expected=None):
    """An ordinary patching session on the crashed file set (no crash in it): if opening for writing, writing and closing
    all succeed, what it committed must be there afterwards. -> (outcome, None) | (None, (kind, detail))"""
    d = Path(d)
    r, err = RE.try_open(cls, d / "rec", mode)
    if r is None:
        return "refused-open", None
    try:
        v0 = E.dump_walk(r)
        r["recovered-by-session"] = 4711
        r.attrs["recovered"] = mode
        want = E.dump_walk(r)
        r.close()
    except Exception as e:
        RE.safe_close(r, commit=False)
        gc.collect()
        return "session-raised", None
    r2, err = RE.try_open(cls, d / "rec", "r")
    if r2 is None:
        return None, ("recovery-session-lost", f"after the crash the set opened in mode '{mode}', a dataset was written and close() returned, "
                                              f"but the file set {sorted(p.name for p in d.iterdir())} no longer opens: {type(err).__name__}: {str(err)[:100]}")
    try:
        got = E.dump_walk(r2)
        if got != want:
            df = E.diff_dumps(got, want)
            return None, ("recovery-session-state", f"after a recovery session (mode '{mode}') the record shows another state than the session saw before close: {df[2] if df else ''}")
        if not RE.is_committed_on_disk(Path(r2.ih5_files[-1])):
            return None, ("recovery-session-uncommitted", "close() of the recovery session returned but the newest container is not committed")
        if exts_expected is not None and isinstance(r2, RE.IH5MFRecord) and r2.manifest.manifest_exts != exts_expected:
            return None, ("recovery-session-manifest-exts", f"the recovery session did not override the manifest extensions, yet they changed from {exts_expected} "
                                                            f"(last committed manifest) to {r2.manifest.manifest_exts}")
    finally:
        RE.safe_close(r2, commit=False)
        gc.collect()
    return "recovered", None


# ---------------------------------------------------------------- one record, all engines


def run_record(acc, base, clsname, seed, tier, engines):
    cls = RE.CLS[clsname]
    rng = random.Random(seed)
    base = Path(base)
    pre = base / "pre"
    pre.mkdir()
    create = seed % 4 == 3  # every fourth record: the crashed cycle is the one that CREATES the record (patch 0, the base container)
    if create:
        committed, view_commit, state_commit = [], None, None
    else:
        rec, _, commits = RE.build_record(rng, pre, "rec", cls, rng.randint(1, 3), ops_per=(1, 5), exts_prob=0.3)
        committed = [Path(p).name for p in rec.ih5_files]
        view_commit = E.dump_walk(rec)
        state_commit = rec_state(rec, pre)
        rec.close()
    acc.count("records.crash_in_base_creation" if create else "records.crash_in_patch")
    ledger = {n: s for n, s in fsmon.dir_state(pre).items()}
    cseed = rng.randrange(1 << 30)
    rid = f"{clsname}:{seed}"
    ctr = [0]

    def fresh(tag):
        ctr[0] += 1
        w = base / f"{tag}{ctr[0]}"
        shutil.copytree(pre, w)
        return w

    states = {}
    jctr = [0]

    def judge(engine, point, w, view_new, nontrivial=True):
        out, bad = oracle(cls, w, committed, ledger, view_commit, view_new, state_commit, states.get(id(view_new)))
        acc.case([rid, engine, point], nontrivial=nontrivial)
        if bad:
            acc.violation(f"{bad[0]}:{engine}:{clsname}", f"{bad[1]} [engine {engine}, crash point {point}, record {rid}]",
                          {"cls": clsname, "seed": seed, "engine": engine, "point": point})
        else:
            acc.count(f"outcome.{engine}.{out}")
            jctr[0] += 1
            if out == "opens-committed-new" and committed and jctr[0] % 3 == 0:
                # the patch survived as committed: the OLD file list (now a proper prefix of the chain) opened for patching must not
                # touch it (the name of "its" next patch is taken by a committed container)
                cp = w.parent / (w.name + "-prefix")
                shutil.rmtree(cp, ignore_errors=True)
                shutil.copytree(w, cp)
                before = fsmon.dir_state(cp)
                r3, _ = RE.try_open(cls, [cp / n for n in committed], ("r+", "a")[jctr[0] % 2])
                RE.safe_close(r3, commit=False)
                gc.collect()
                after = fsmon.dir_state(cp)
                acc.count("prefix_opens_after_committed_crash")
                lost = [n for n in before if n.endswith(".ih5") and RE.is_committed_on_disk(w / n) and after.get(n, [None])[:2] != before[n][:2]]
                shutil.rmtree(cp, ignore_errors=True)
                if lost:
                    acc.violation(f"committed-file-changed-by-prefix-open:{engine}:{clsname}", f"opening the previously committed containers {committed} for patching "
                                  f"changed/removed the committed container(s) {lost} [engine {engine}, crash point {point}, record {rid}]",
                                  {"cls": clsname, "seed": seed, "engine": engine, "point": point})
            if out in ("opens-uncommitted", "opens-committed-new", "opens-committed-old") and (out == "opens-uncommitted" or jctr[0] % 5 == 0):
                mode = ("r+", "a")[jctr[0] % 2]
                rbad = launder(cls, w) if out == "opens-uncommitted" else None
                if rbad:
                    rout = None
                    acc.count("merge_attempts_on_uncommitted_sets")
                else:
                    if out == "opens-uncommitted":
                        acc.count("merge_attempts_on_uncommitted_sets")
                    rout, rbad = recovery(cls, w, mode)  # (manifest extensions after recovery are C10's business and judged there)
                if rbad:
                    acc.violation(f"{rbad[0]}:{engine}:{clsname}", f"{rbad[1]} [engine {engine}, crash point {point}, outcome before recovery {out}, record {rid}{', crash while creating the base container' if create else ''}]",
                                  {"cls": clsname, "seed": seed, "engine": engine, "point": point})
                else:
                    acc.count(f"recovery.{out}.{rout}")
        shutil.rmtree(w, ignore_errors=True)

    # ---- dry run: expected new view, E1 snapshots, captured user-block write, LINE count
    w = fresh("dry")
    snaps = []
    cap = {}
    from metador_core.ih5.record import IH5UserBlock
    from metador_core.ih5.manifest import IH5Manifest
    orig_save, orig_msave = IH5UserBlock.save, IH5Manifest.save

    def save_wrap(self, filename):
        old = Path(filename).read_bytes()[:1024]
        r = orig_save(self, filename)
        if self.hdf5_hashsum is not None:
            cap["ub"] = (Path(filename).name, old, Path(filename).read_bytes()[:1024])
            if "E2" in engines:  # snapshot between user-block write and sidecar write
                ctr[0] += 1
                s = base / f"mid{ctr[0]}"
                shutil.copytree(w, s)
                cap["mid"] = s
        return r

    def msave_wrap(self, path):
        r = orig_msave(self, path)
        cap["mf"] = (Path(path).name, Path(path).read_bytes())
        return r

    def snap(tag, recobj):
        if "E1" in engines:
            ctr[0] += 1
            s = base / f"snap{ctr[0]}"
            shutil.copytree(w, s)
            snaps.append((tag, s))

    IH5UserBlock.save, IH5Manifest.save = save_wrap, msave_wrap
    _fp.update(n=0, kill_at=None, names=[])
    fp_enable()
    try:
        view_new, st_new = cycle(w, clsname, cseed, snap=snap, want_state=True, create=create)
        states[id(view_new)] = st_new
    finally:
        fp_disable()
        IH5UserBlock.save, IH5Manifest.save = orig_save, orig_msave
    N, names = _fp["n"], _fp["names"]
    _fp["names"] = None
    acc.count("line_events_per_cycle_total", N)
    acc.count("cycles")
    post = base / "post"
    shutil.copytree(w, post)
    judge("dry", "uncrashed", w, view_new, nontrivial=False)

    # ---- E1: API-call boundaries
    for j, (tag, s) in enumerate(snaps):
        judge("E1", f"{j}:{tag}", s, view_new)
    if "mid" in cap:
        judge("E2", "between-userblock-and-sidecar", cap["mid"], view_new)

    # ---- E2: torn user-block write of the commit (every prefix) and torn sidecar write
    if "E2" in engines and "ub" in cap:
        name, old, new = cap["ub"]
        diff = [i for i in range(1024) if old[i] != new[i]]
        lo, hi = diff[0], diff[-1] + 1
        acc.count("torn_write_span_bytes", hi - lo)
        for k in range(lo, hi + 1):
            w2 = base / "torn"
            shutil.rmtree(w2, ignore_errors=True)
            shutil.copytree(post, w2)
            if "mf" in cap and k < hi:  # sidecar of the new patch is written after the user block
                (w2 / cap["mf"][0]).unlink(missing_ok=True)
            data = (w2 / name).read_bytes()
            (w2 / name).unlink()
            (w2 / name).write_bytes(new[:k] + old[k:] + data[1024:])
            judge("E2", f"ub-prefix-{k}", w2, view_new)
        if "mf" in cap:
            mname, mbytes = cap["mf"]
            ks = sorted({0, 1, len(mbytes) - 1, len(mbytes) // 2} | {rng.randrange(len(mbytes)) for _ in range(12)})
            for k in ks:
                w2 = base / "torn"
                shutil.rmtree(w2, ignore_errors=True)
                shutil.copytree(post, w2)
                (w2 / mname).unlink()
                (w2 / mname).write_bytes(mbytes[:k])
                judge("E2", f"sidecar-prefix-{k}", w2, view_new)

    # ---- E3: LINE failpoints with SIGKILL
    if "E3" in engines:
        hot = {"commit_patch", "save", "create_patch", "_new_container", "__bytes__", "hashsum_file", "qualified_hashsum",
               "_fresh_manifest", "from_userblock", "update", "close"}
        if tier == "thorough":
            ks = list(range(1, N + 1))
        else:
            ks = [k for k in range(1, N + 1) if names[k - 1] in hot]
            rest = [k for k in range(1, N + 1) if names[k - 1] not in hot]
            ks = sorted(set(ks[:: max(1, len(ks) // 90)]) | set(rng.sample(rest, min(len(rest), 40))))
        for k in ks:
            wk = fresh("k")
            sys.stdout.flush()
            pid = os.fork()
            if pid == 0:
                try:
                    os.chdir(wk)
                    _fp.update(n=0, kill_at=k, names=None, on=False)
                    fp_enable()
                    cycle(wk, clsname, cseed, create=create)
                finally:
                    os._exit(0)
            _, status = os.waitpid(pid, 0)
            if os.WIFSIGNALED(status):
                acc.count(f"E3.killed_in.{names[k - 1]}")
            else:
                acc.count("E3.not_killed")
            judge("E3", f"line-event-{k}:{names[k - 1]}", wk, view_new, nontrivial=os.WIFSIGNALED(status))

    # ---- E4: random-instant SIGKILL while writing large datasets
    if "E4" in engines:
        w = fresh("dryb")
        view_big, st_big = cycle(w, clsname, cseed, big=2, want_state=True, create=create)
        states[id(view_big)] = st_big
        shutil.rmtree(w, ignore_errors=True)
        n4 = 10 if tier == "quick" else 60
        for j in range(n4):
            wk = fresh("r")
            rd, wr = os.pipe()
            sys.stdout.flush()
            pid = os.fork()
            if pid == 0:
                try:
                    os.close(rd)
                    os.chdir(wk)
                    cycle(wk, clsname, cseed, big=2, ready=lambda: os.write(wr, b"x"), create=create)
                finally:
                    os._exit(0)
            os.close(wr)
            os.read(rd, 1)
            os.close(rd)
            delay = 10 ** rng.uniform(-4, -0.7)
            time.sleep(delay)
            try:
                os.kill(pid, signal.SIGKILL)
            except ProcessLookupError:
                pass
            _, status = os.waitpid(pid, 0)
            killed = os.WIFSIGNALED(status)
            acc.count("E4.killed" if killed else "E4.finished_before_kill")
            judge("E4", f"delay-{delay:.5f}", wk, view_big, nontrivial=killed)

    if len(acc.samples) < 3:
        acc.sample({"record": rid, "committed": committed, "line_events_in_cycle": N,
                    "example_points": ["E1 0:create_patch", "E2 ub-prefix-250", f"E3 line-event-{N // 2}:{names[N // 2 - 1] if N else ''}", "E4 delay-0.01"]})


def units(tier, seed):
    n = 10 if tier == "quick" else 12
    us = []
    for i in range(n):
        us.append({"seed": seed * 6151 + i, "cls": list(RE.CLS)[i % 2], "engines": ["E1", "E2", "E3", "E4"]})
    return us


def run_unit(u, acc):
    d = acc.newdir("c11")
    try:
        run_record(acc, d, u["cls"], u["seed"], acc.tier, u["engines"])
    finally:
        acc.rmdir(d, collect=True)


def inconclusive(cov):
    c = cov["counters"]
    r = []
    for eng in ("E1", "E2", "E3", "E4"):
        if not any(k.startswith(f"outcome.{eng}.") for k in c):
            r.append(f"engine {eng} produced no judged crash")
    if not c.get("outcome.E2.opens-committed-new"):
        r.append("no torn-write variant reached the complete write (control)")
    if not any(k.startswith("E3.killed_in.commit_patch") for k in c):
        r.append("no kill inside commit_patch")
    if not c.get("E4.killed"):
        r.append("no random-instant kill hit a running writer")
    if not c.get("records.crash_in_base_creation"):
        r.append("no record crashed while its base container was created")
    if not c.get("recovery.opens-uncommitted.recovered"):
        r.append("no recovery session on an uncommitted crashed set")
    if not c.get("merge_attempts_on_uncommitted_sets"):
        r.append("no merge attempt on an uncommitted crashed set")
    return r


def replay(case, acc):
    d = acc.newdir("c11")
    try:
        run_record(acc, d, case["cls"], case["seed"], "quick", [case["engine"]] if case["engine"] != "dry" else ["E1"])
    finally:
        acc.rmdir(d, collect=True)
