"""C05 — merge materialises the overlay view and continues the patch chain; source untouched."""
from __future__ import annotations

import gc
import json
import random
import shutil
from pathlib import Path

import h5py

from vlib import fsmon
from vlib import h5eng as E
from vlib import receng as RE
from vlib.opgen import DataGen

PROPERTY = "C05"
LEVEL = "exploration"
RULE = (
    "source records (1-6 containers, deletions, replacements, root attributes) from random histories, IH5Record and "
    "IH5MFRecord; merge_files into another directory while the source stays open; then a random follow-up patch P is "
    "committed on the source and opened both as [source..., P] and as [merged, P]. Checked: merged view == source view "
    "(also read with plain h5py: no markers/SUBST left), identity (record_uuid, patch_index, patch_uuid, prev_patch of "
    "the oldest source container), source ih5_meta/ih5_files/view and files unchanged by the merge, follow-up patch "
    "gives the same tree on both, refusal with uncommitted changes (writable patch; uncommitted container opened "
    "read-only) and for stubs leaves no target. non-trivial = source has >=2 containers; distinct = hash of the op log."
)
ANCHORS = ["src/metador_core/ih5/record.py", "src/metador_core/ih5/overlay.py", "src/metador_core/ih5/manifest.py"]
ASSUMPTIONS = ["plain h5py read of the merged file is compared up to the IH5-internal user block (h5py skips it)"]
WORKERS = {"quick": 12, "thorough": 16}


def meta_key(ub):
    return ub.json()


def one(rng, acc, d, clsname, record=True):
    cls = RE.CLS[clsname]
    d = Path(d)
    (d / "src").mkdir()
    (d / "out").mkdir()
    ncont = rng.randint(1, 6)
    rec, log, commits = RE.build_record(rng, d / "src", "rec", cls, ncont, ops_per=(1, 7), exts_prob=0.4)
    # sometimes the record is merged through the OTHER record class (documented: an IH5MFRecord is a valid IH5Record, and an
    # IH5Record can be opened as IH5MFRecord)
    mixed = rng.random() < 0.3
    if mixed:
        files = list(rec.ih5_files)
        rec.close()
        cls = RE.IH5Record if cls is RE.IH5MFRecord else RE.IH5MFRecord
        rec = cls(files, "r")
        acc.count("merges_through_other_class") if record else None
    if rng.random() < 0.3:
        # a refused call on the committed record (nothing to commit / nothing to discard) must not disturb a later merge
        for call, kw in (("commit_patch", {"manifest_exts": {"refused": 1}} if cls is RE.IH5MFRecord else {}), ("discard_patch", {})):
            try:
                getattr(rec, call)(**kw)
                return "refused-call-accepted", f"{call}({kw}) on a committed record without open patch returned"
            except Exception:
                acc.count("refused_calls_before_merge") if record else None
    if not mixed and rng.random() < 0.3:
        # a patch is started and discarded (also one with content) before merging through the same object
        files = list(rec.ih5_files)
        rec.close()
        rec = cls(files, "r+")
        if rng.random() < 0.5:
            rec["discarded-content"] = 1
        rec.discard_patch()
        acc.count("merges_after_discarded_patch") if record else None
    src_dump = E.full_dump(rec)
    meta_before = [meta_key(u) for u in rec.ih5_meta]
    files_before = list(rec.ih5_files)
    s_src = fsmon.dir_state(d / "src")
    if record:
        acc.count(f"source_containers.{ncont}")

    # -- merge while the source stays open
    try:
        merged = rec.merge_files(d / "out" / "mrg")
    except BaseException as e:
        return "merge-failed", f"merge_files of a committed record without stub raised {type(e).__name__}: {str(e)[:120]}; target directory now holds {sorted(p.name for p in (d / 'out').iterdir())}"
    if record:
        acc.count("merges")
    if [meta_key(u) for u in rec.ih5_meta] != meta_before:
        k = next(i for i, (a, b) in enumerate(zip([meta_key(u) for u in rec.ih5_meta], meta_before)) if a != b)
        return "source-meta-changed", f"source.ih5_meta[{k}] differs after merge_files (observed through the still-open object)"
    if list(rec.ih5_files) != files_before:
        return "source-files-changed", "source.ih5_files differs after merge"
    if E.full_dump(rec) != src_dump:
        return "source-view-changed", "view of the still-open source differs after merge"
    if fsmon.dir_state(d / "src") != s_src:
        return "source-disk-changed", "source files changed on disk by merge"
    out_files = sorted(p.name for p in (d / "out").iterdir())
    want = ["mrg.ih5"] + (["mrg.ih5mf.json"] if cls is RE.IH5MFRecord else [])  # (the merging class decides)
    if out_files != want:
        return "merge-target-files", f"target directory holds {out_files}, expected {want}"

    # -- (i) merged view == source view, opened as the same class
    m, err = RE.try_open(cls, d / "out" / "mrg", "r")
    if m is None:
        return "merged-unopenable", f"merged container does not open as {clsname}: {err}"
    try:
        if E.full_dump(m) != src_dump:
            df = E.diff_dumps(E.dump_walk(m), src_dump[0])
            return "merged-view", f"merged view differs from overlay view of the source: {df[2] if df else 'probes'}"
        if len(m.ih5_files) != 1:
            return "merged-view", "merged record is not a single container"
        mm, sm = m.ih5_meta[0], rec.ih5_meta
        for fld in ("record_uuid", "patch_index", "patch_uuid"):
            if getattr(mm, fld) != getattr(sm[-1], fld):
                return "merged-identity", f"{fld} of merged container {getattr(mm, fld)} != source newest {getattr(sm[-1], fld)}"
        if mm.prev_patch != sm[0].prev_patch:
            return "merged-identity", "prev_patch of merged container != prev_patch of the oldest source container"
        if mm.hdf5_hashsum is None:
            return "merged-identity", "merged container is not committed"
        if cls is RE.IH5MFRecord and not mixed:
            if m.manifest.manifest_exts != rec.manifest.manifest_exts or m.manifest.manifest_uuid != rec.manifest.manifest_uuid:
                return "merged-manifest", "merged record does not carry the source's manifest"
        if mixed:  # the merged container must also open with the class the source was written with
            other = RE.IH5Record if cls is RE.IH5MFRecord else RE.IH5MFRecord
            m3, err = RE.try_open(RE.IH5Record, d / "out" / "mrg", "r")
            if m3 is None:
                return "merged-unopenable", f"merged container (merged through {clsname} counterpart) does not open as IH5Record: {err}"
            m3.close()
    finally:
        m.close()
    # -- (ii) really materialised: plain h5py sees the same tree
    with h5py.File(merged, "r") as hf:
        if E.dump_walk(hf) != src_dump[0]:
            df = E.diff_dumps(E.dump_walk(hf), src_dump[0])
            return "not-materialised", f"plain h5py view of the merged file differs: {df[2] if df else ''}"

    # -- (v) follow-up patch on the source applies to the merged container with the same result
    rec.close()
    if mixed:
        return finish(acc, clsname, log, ncont, record)  # follow-up chains across classes are not compared
    rec = cls(d / "src" / "rec", "r+")
    gen = DataGen(rng, boundaries=False, allow_self_copy=False)
    RE.fill(rec, gen, rng.randint(1, 8), log)
    rec.attrs["follow"] = 1
    rec.commit_patch()
    after = E.full_dump(rec)
    pfile = Path(rec.ih5_files[-1])
    rec.close()
    shutil.copy(pfile, d / "out" / pfile.name)
    if cls is RE.IH5MFRecord:
        shutil.copy(RE.sidecar(pfile), RE.sidecar(d / "out" / pfile.name))
    m2, err = RE.try_open(cls, [merged, d / "out" / pfile.name], "r")
    if m2 is None:
        return "followup-rejected", f"follow-up patch of the source does not open on the merged container: {err}"
    try:
        if E.full_dump(m2) != after:
            df = E.diff_dumps(E.dump_walk(m2), after[0])
            return "followup-view", f"[merged, P] differs from [source..., P]: {df[2] if df else 'probes'}"
    finally:
        m2.close()
    if record:
        acc.count("followups_compared")
        acc.case([clsname, log], nontrivial=ncont >= 2)
        if acc.evaluations % 60 == 1:
            acc.sample({"cls": clsname, "containers": ncont, "ops": log[:12]})
    return None


def finish(acc, clsname, log, ncont, record):
    if record:
        acc.case([clsname, "mixed", log], nontrivial=ncont >= 2)
    return None


def refusals(rng, acc, d, clsname):
    cls = RE.CLS[clsname]
    d = Path(d)
    (d / "out").mkdir()
    # (a) writable patch pending
    rec, log, commits = RE.build_record(rng, d, "rec", cls, rng.randint(1, 3), commit_last=False)
    try:
        try:
            rec.merge_files(d / "out" / "m1")
            return "refusal", "merge accepted while a writable patch/base is pending"
        except Exception:
            pass
        if list((d / "out").iterdir()):
            return "refusal", f"refused merge left files: {[p.name for p in (d / 'out').iterdir()]}"
        files = list(rec.ih5_files)
        rec.close(commit=False)
        # (b) the same uncommitted container, opened read-only: still uncommitted changes
        rec = cls(files, "r")
        try:
            rec.merge_files(d / "out" / "m2")
            return "refusal-readonly-uncommitted", ("merge accepted although the newest container is uncommitted "
                                                    "(opened read-only): the merged container claims the identity of an unfinished state")
        except Exception:
            acc.count("uncommitted_readonly_refusals_checked")
        if list((d / "out").iterdir()):
            return "refusal", "refused merge left files"
    finally:
        RE.safe_close(rec, commit=False)
    acc.count("refusals_checked")
    # (c) stub
    if cls is RE.IH5MFRecord:
        shutil.rmtree(d / "out")
        (d / "out").mkdir()
        (d / "s").mkdir()
        r2, _, _ = RE.build_record(rng, d / "s", "real", cls, rng.randint(1, 3))
        mf = RE.sidecar(r2.ih5_files[-1])
        r2.close()
        (d / "stub").mkdir()
        st = cls.create_stub(d / "stub" / "st", mf)
        try:
            for with_patch in (False, True):
                if with_patch:
                    st.close()
                    st = cls(d / "stub" / "st", "r+")
                    st["newnode"] = 1
                    st.commit_patch()
                try:
                    st.merge_files(d / "out" / "m3")
                    return "refusal-stub", f"merge of a stub accepted (with_patch={with_patch})"
                except Exception:
                    pass
                if list((d / "out").iterdir()):
                    return "refusal-stub", "refused stub merge left files"
                acc.count("stub_refusals_checked")
        finally:
            RE.safe_close(st)
    return None


def run_one(params, acc, record=True):
    d = acc.newdir("c5")
    rng = random.Random(params["seed"])
    try:
        if params["kind"] == "merge":
            res = one(rng, acc, d, params["cls"], record)
        else:
            res = refusals(rng, acc, d, params["cls"])
            if res is None and record:
                acc.case(params, nontrivial=True)
    finally:
        gc.collect()
        acc.rmdir(d, collect=True)
    if res:
        acc.violation(f"{res[0]}:{params['cls']}", f"{res[1]} [{params}]", params)


def units(tier, seed):
    n = 420 if tier == "quick" else 12000
    us = []
    for i in range(0, n, 10):
        us.append({"seed": seed * 9973 + i, "n": 10, "cls": list(RE.CLS)[(i // 10) % 2],
                   "kind": "refuse" if (i // 10) % 7 == 6 else "merge"})
    return us


def run_unit(u, acc):
    for j in range(u["n"]):
        run_one({"seed": u["seed"] + j, "cls": u["cls"], "kind": u["kind"]}, acc)


def inconclusive(cov):
    c = cov["counters"]
    r = []
    for k in ("merges", "followups_compared", "refusals_checked", "stub_refusals_checked", "merges_through_other_class"):
        if not c.get(k):
            r.append(f"monitor counter {k} is zero")
    return r


def replay(case, acc):
    run_one(case, acc)
