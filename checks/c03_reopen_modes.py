"""C03 — close/reopen reproduces the view; open-mode contract table with a directory monitor."""
from __future__ import annotations

import gc
import itertools
import random
from pathlib import Path

from vlib import fsmon
from vlib import h5eng as E
from vlib import receng as RE

PROPERTY = "C03"
LEVEL = "exploration"
RULE = (
    "(A) records with 1-5 containers from random histories are closed and reopened by name and by explicit file list in "
    "every permutation (<=24, sampled beyond) in r, and in r+/a with continuation; view, patch order of ih5_files and the "
    "directory are compared. (B) full matrix 6 modes x 5 on-disk situations (absent, uncommitted base, committed base, "
    "patched, uncommitted patch) x {alone, with prefix-related neighbour records foo2/foo-bar/fo/foop1} x {IH5Record, "
    "IH5MFRecord}, each cell with random content, checked against a contract table written from the property (what may be "
    "created/changed/removed, what the view must be, which calls must be refused), incl. discard_patch. "
    "non-trivial = cell/reopen case whose record holds generated content; distinct = (cell, content hash)."
)
ANCHORS = ["src/metador_core/ih5/record.py"]
ASSUMPTIONS = [
    "stale *.ih5mf.json sidecars left behind by mode 'w' are counted as an observation, not a violation (the statement speaks about the record's containers and view)",
]
WORKERS = {"quick": 12, "thorough": 16}

MODES = ["r", "r+", "a", "w", "w-", "x"]
SITS = ["absent", "ubase", "cbase", "patched", "upatch"]
NEIGH = ["foo2", "foo-bar", "fo", "foop1"]


def own_files(state):
    """Files of record 'foo' in a directory state (containers and sidecars)."""
    import re
    return {n for n in state if re.match(r"^foo(\.p\d+)?\.ih5(mf\.json)?$", n)}


def make_situation(rng, d, cls, sit):
    """Returns dict(now=view incl. uncommitted part, commit=view at last commit or None, nfiles)."""
    if sit == "absent":
        return {"now": None, "commit": None, "nfiles": 0, "uncommitted": False}
    ncommitted = {"ubase": 0, "cbase": 1, "patched": rng.randint(2, 4), "upatch": rng.randint(1, 3)}[sit]
    unc = sit in ("ubase", "upatch")
    rec, log, commits = RE.build_record(rng, d, "foo", cls, ncommitted + (1 if unc else 0), ops_per=(1, 5),
                                        commit_last=not unc, exts_prob=0.3)
    now = E.dump_walk(rec)
    n = len(rec.ih5_files)
    rec.close(commit=False)
    return {"now": now, "commit": commits[-1]["dump"] if commits else None, "nfiles": n, "uncommitted": unc,
            "log_len": len(log)}


def make_neighbours(rng, d, cls, skip=None):
    for nm in NEIGH + ["foo"]:
        if nm == skip or (skip is None and nm == "foo"):
            continue
        r, _, _ = RE.build_record(rng, d, nm, cls, 2, ops_per=(1, 3))
        r.close()
    # records of the SAME name in sub-directories (a backup copy, an unrelated record): another directory, another record
    for sub in ("backup", "foo.old/deeper"):
        (Path(d) / sub).mkdir(parents=True, exist_ok=True)
        r, _, _ = RE.build_record(rng, Path(d) / sub, skip or "foo", cls, 2, ops_per=(1, 2))
        r.close()


def changed(s0, s1, names):
    return sorted(n for n in names if n in s0 and n in s1 and s0[n] != s1[n])


def refuse(fn):
    try:
        fn()
        return False
    except Exception:
        return True


def cell(rng, acc, d, clsname, mode, sit, neigh):
    """Run one matrix cell; return None or (kind, detail)."""
    cls = RE.CLS[clsname]
    if neigh:
        make_neighbours(rng, d, cls)
    S = make_situation(rng, d, cls, sit)
    s0 = fsmon.dir_state(d)
    rec, err = RE.try_open(cls, d / "foo", mode)
    s1 = fsmon.dir_state(d)
    others = set(s0) - own_files(s0)
    try:
        # neighbours and foreign files are never touched by any mode
        if changed(s0, s1, others) or (others - set(s1)):
            return "neighbour-touched", f"mode {mode}/{sit}: files of other records changed: {changed(s0, s1, others) or sorted(others - set(s1))}"
        new = set(s1) - set(s0)
        gone = set(s0) - set(s1)
        exists = sit != "absent"

        if mode == "r":
            if not exists:
                if rec is not None:
                    return "mode-r", "opened a record that does not exist"
                return None if s1 == s0 else ("mode-r", "failed open changed the directory")
            if rec is None:
                return "mode-r", f"cannot open existing record ({sit}): {err}"
            if s1 != s0:
                return "mode-r", f"read-only open changed the directory: +{sorted(new)} -{sorted(gone)} ~{changed(s0, s1, s0)}"
            if E.dump_walk(rec) != S["now"]:
                return "mode-r", "view after reopen differs"
            for nm, fn in (("write", lambda: rec.__setitem__("zz9", 1)), ("create_patch", rec.create_patch),
                           ("commit_patch", rec.commit_patch), ("discard_patch", rec.discard_patch),
                           ("attr write", lambda: rec.attrs.__setitem__("zz9", 1)),
                           ("delete", lambda: rec.__delitem__("seed")),
                           # the record as reached from its own nodes is the same read-only record
                           ("create_patch via node.file", lambda: rec["seed"].file.create_patch()),
                           ("write via node.file", lambda: rec["seed"].file.__setitem__("zz8", 1)),
                           ("create_patch via node.parent.file", lambda: rec["seed/x"].parent.file.create_patch())):
                if not refuse(fn):
                    return "mode-r", f"{nm} accepted on a record opened read-only ({sit})"
                if fsmon.dir_state(d) != s0:
                    return "mode-r", f"refused {nm} changed the directory"
            rec.close()
            if fsmon.dir_state(d) != s0:
                return "mode-r", "close of a read-only record changed the directory"
            return None

        if mode in ("r+", "a"):
            if not exists:
                if mode == "r+":
                    if rec is not None:
                        return "mode-r+", "opened a record that does not exist"
                    return None if s1 == s0 else ("mode-r+", "failed open changed the directory")
                if rec is None:
                    return "mode-a", f"'a' did not create an absent record: {err}"
                if new != {"foo.ih5"} or gone or changed(s0, s1, s0):
                    return "mode-a", f"'a' on absent record: +{sorted(new)} -{sorted(gone)}"
                if len(rec) or len(rec.attrs):
                    return "mode-a", "fresh record is not empty"
                rec["n"] = 5  # writable
                if not refuse(rec.discard_patch):
                    return "discard", "base container could be discarded"
                return None
            if rec is None:
                return f"mode-{mode}", f"cannot open existing record ({sit}): {err}"
            # the uncommitted newest container is legitimately opened for writing (HDF5 itself flags the
            # file as open-for-write), every committed file must stay byte-identical
            wr = {Path(rec.ih5_files[-1]).name} if S["uncommitted"] else set()
            if gone or set(changed(s0, s1, s0)) - wr:
                return f"mode-{mode}", f"existing files altered on open: -{sorted(gone)} ~{changed(s0, s1, s0)}"
            if S["uncommitted"]:
                if new:
                    return f"mode-{mode}", f"uncommitted {sit} not continued, new files {sorted(new)}"
            else:
                want = {f"foo.p{S['nfiles']}.ih5"}
                if new != want:
                    return f"mode-{mode}", f"expected exactly the new patch {sorted(want)}, got {sorted(new)}"
            if E.dump_walk(rec) != S["now"]:
                return f"mode-{mode}", "view after reopen differs"
            # continuation + discard
            rec["zz9/q"] = 7
            rec.attrs["zz9"] = 8
            if "zz9/q" not in rec:
                return f"mode-{mode}", "write after reopen not visible"
            sb = fsmon.dir_state(d)
            if sit == "ubase":
                if not refuse(rec.discard_patch):
                    return "discard", "base container could be discarded"
                if set(fsmon.dir_state(d)) != set(sb):
                    return "discard", "refused discard changed the directory"
            else:
                newest = Path(rec.ih5_files[-1]).name
                rec.discard_patch()
                sd = fsmon.dir_state(d)
                if set(sb) - set(sd) != {newest}:
                    return "discard", f"discard removed {sorted(set(sb) - set(sd))}, expected exactly {newest}"
                if changed(sb, sd, sd):
                    return "discard", f"discard changed {changed(sb, sd, sd)}"
                if E.dump_walk(rec) != S["commit"]:
                    return "discard", "view after discard_patch is not the last committed state"
                if not refuse(lambda: rec.__setitem__("zz8", 1)):
                    return "discard", "write accepted after discard without a new patch"
            return None

        if mode == "w":
            if rec is None:
                return "mode-w", f"'w' failed ({sit}): {err}"
            oc = {n for n in own_files(s0) if n.endswith(".ih5")}
            left = (oc - {"foo.ih5"}) & set(s1)
            if left:
                return "mode-w", f"former containers of the record survive 'w': {sorted(left)}"
            if "foo.ih5" not in s1 or ("foo.ih5" in s0 and s0["foo.ih5"][0] == s1["foo.ih5"][0]):
                return "mode-w", "base container not replaced"
            stale = {n for n in own_files(s1) if n.endswith(".json")}
            if stale:
                acc.count("observation.stale_sidecars_after_w", len(stale))
            if len(rec) or len(rec.attrs):
                return "mode-w", "record not empty after 'w'"
            rec["n"] = 1
            return None

        # x / w-
        if exists:
            if rec is not None:
                return "mode-x", f"'{mode}' opened an existing record ({sit})"
            return None if s1 == s0 else ("mode-x", f"failed '{mode}' changed the directory: +{sorted(new)} -{sorted(gone)} ~{changed(s0, s1, s0)}")
        if rec is None:
            return "mode-x", f"'{mode}' did not create an absent record: {err}"
        if new != {"foo.ih5"} or gone:
            return "mode-x", f"'{mode}' on absent: +{sorted(new)} -{sorted(gone)}"
        rec["n"] = 1
        return None
    finally:
        RE.safe_close(rec, commit=False)
        gc.collect()


def reopen_case(rng, acc, d, clsname):
    cls = RE.CLS[clsname]
    # records with 10+ containers (file names no longer sort like patch indices) and other legal record names
    ncont = rng.choice([1, 2, 3, 4, 5, 5, 11, 12])
    name = rng.choice(["foo", "foo", "foo-bar", "f", "A1-b", "foop1"])
    rec, log, commits = RE.build_record(rng, d, name, cls, ncont, ops_per=(1, 6) if ncont < 10 else (1, 2), exts_prob=0.3)
    if rng.random() < 0.5:
        make_neighbours(rng, d, cls, skip=name)
    acc.count(f"reopen_containers.{ncont}")
    before = E.full_dump(rec)
    files = list(rec.ih5_files)
    rec.close()
    s0 = fsmon.dir_state(d)
    perms = list(itertools.permutations(files)) if len(files) <= 4 else \
        [tuple(rng.sample(files, len(files))) for _ in range(24)]
    tries = [("name", d / name)] + [("list", list(p)) for p in perms]
    for how, what in tries:
        r, err = RE.try_open(cls, what, "r")
        if r is None:
            return "reopen", f"reopen by {how} failed: {err}"
        try:
            if E.full_dump(r) != before:
                return "reopen", f"view differs after reopen by {how} ({[Path(p).name for p in what] if how == 'list' else ''})"
            if list(r.ih5_files) != files:
                return "reopen", f"ih5_files not in patch order after reopen by {how}: {[p.name for p in r.ih5_files]}"
        finally:
            r.close()
        acc.count("reopens")
        if fsmon.dir_state(d) != s0:
            return "reopen", f"read-only reopen by {how} changed the directory"
    # continuation through a permuted list in r+/a
    what = list(rng.choice(perms))
    mode = rng.choice(["r+", "a"])
    r, err = RE.try_open(cls, what, mode)
    if r is None:
        return "reopen", f"reopen by permuted list in {mode} failed: {err}"
    try:
        if E.dump_walk(r) != before[0]:
            return "reopen", f"view differs after reopen in {mode}"
        r["cont/x"] = 3
        r.close()
        r = cls(d / name, "r")
        dd = E.dump_walk(r)
        if dd.get("/cont/x") is None or {k: v for k, v in dd.items() if not k.startswith("/cont") and k != "/"} != \
                {k: v for k, v in before[0].items() if k != "/"}:
            return "reopen", "state after continuation is not old state + new write"
        if len(r.ih5_files) != len(files) + 1:
            return "reopen", "continuation did not produce exactly one new container"
    finally:
        RE.safe_close(r)
    return None


def units(tier, seed):
    fill = 4 if tier == "quick" else 30
    us = []
    for f in range(fill):
        for clsname in RE.CLS:
            for neigh in (False, True):
                us.append({"kind": "matrix", "seed": seed * 1009 + f, "cls": clsname, "neigh": neigh})
    nre = 160 if tier == "quick" else 2400
    for i in range(0, nre, 10):
        us.append({"kind": "reopen", "seed": seed * 4001 + i, "n": 10, "cls": list(RE.CLS)[(i // 10) % 2]})
    return us


def run_one(kind, params, acc, record=True):
    d = acc.newdir("c3")
    rng = random.Random(params["seed"])
    try:
        if kind == "matrix":
            res = cell(rng, acc, d, params["cls"], params["mode"], params["sit"], params["neigh"])
        else:
            res = reopen_case(rng, acc, d, params["cls"])
    finally:
        acc.rmdir(d, collect=True)
    if res:
        acc.violation(f"{res[0]}:{params.get('mode', '-')}:{params.get('sit', '-')}",
                      f"{res[1]} [{params}]", {"kind": kind, "params": params})
    return res


def run_unit(u, acc):
    if u["kind"] == "matrix":
        for mi, mode in enumerate(MODES):
            for si, sit in enumerate(SITS):
                p = {"seed": u["seed"] * 100 + mi * 10 + si, "cls": u["cls"], "mode": mode, "sit": sit, "neigh": u["neigh"]}
                run_one("matrix", p, acc)
                acc.case(p, nontrivial=sit != "absent")
                acc.seen("cells", [u["cls"], mode, sit, u["neigh"]])
        acc.sample({"kind": "matrix cell", "params": p})
    else:
        for j in range(u["n"]):
            p = {"seed": u["seed"] + j, "cls": u["cls"]}
            run_one("reopen", p, acc)
            acc.case(p, nontrivial=True)
        acc.sample({"kind": "reopen", "params": p}) if u["seed"] % 7 == 0 else None


def inconclusive(cov):
    r = []
    if cov["distinct_situations"].get("cells", 0) < 120:
        r.append(f"matrix incomplete: {cov['distinct_situations'].get('cells', 0)}/120 cells")
    if cov["counters"].get("reopens", 0) == 0:
        r.append("no reopen compared")
    return r


def replay(case, acc):
    run_one(case["kind"], case["params"], acc)
