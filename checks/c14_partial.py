"""C14 — partial merge is a lossless, associative, non-mutating monoid (spec oracle + icontract frame contract)."""
from __future__ import annotations

import copy
import json
import random
from pathlib import Path

PROPERTY = "C14"
LEVEL = "exploration"
RULE = (
    "partials of schema classes generated from the field-type grammar (optional primitives incl. falsy values, lists, "
    "sets, nested and recursive models, inheritance) and of installed schemas, obtained in every way the library produces "
    "them: Partial.parse_obj, parse_raw (JSON and YAML), to_partial(complete object), cast, metadata_loader sidecar files "
    "folded by the real harvest() pipeline, FileMetaHarvester on real files. Triples are generated correlated (shared and "
    "disjoint fields, equal and conflicting values, falsy values over-represented). Checked against a 25-line structural "
    "specification of merge: identities e.p = p = p.e, (a.b).c = a.(b.c) incl. equal failure behaviour, list = "
    "concatenation, set = union, nested = recursive, no provided value dropped, conflict without allow_overwrite raises "
    "ValueError / with it the later value wins, from_partial(to_partial(x)) == x, only ValueError/ValidationError may be "
    "raised; an icontract snapshot/ensure contract applied from outside on PartialModel.merge_with asserts on EVERY call "
    "(also the internal ones of merge()/harvest()) that neither operand changes. non-trivial = triple with >=1 shared "
    "field and >=1 falsy or collection value; distinct = (class shape, triple)."
)
ANCHORS = ["src/metador_core/schema/partial.py", "src/metador_core/harvester/__init__.py"]
ASSUMPTIONS = [
    "equality of partials is structural (non-None public field values, recursively), not class identity",
    "without allow_overwrite two provided atomic values conflict even when equal (the code's documented rule)",
    "nested dict inputs carry no fields unknown to the declared class; values of a subclass enter nested positions as objects (via to_partial/cast of complete objects), as harvesters produce them",
    "associativity is only checked for triples in which every nested position holds model values of ONE inheritance chain (no unrelated classes, no mix of model and opaque values): the property's chain condition",
]
WORKERS = {"quick": 12, "thorough": 16}


class Conflict(Exception):
    pass


_classes = {}
_unrelated = [0]  # bumped by spec_merge when two models at one position are NOT in an inheritance chain


def struct(v, with_cls=False):
    """Structural value: non-None public fields, recursively (class identity only kept on request)."""
    from pydantic import BaseModel
    if isinstance(v, BaseModel):
        from vlib.schemagen import ALL_CONSTS
        consts = set(getattr(v, "__constants__", {}) or {}) | ALL_CONSTS  # constants are not provided values (also not those of a
        # subclass that ended up as extra fields of a parent-class partial)
        out = {"__model__": {k: struct(x, with_cls) for k, x in v.__dict__.items() if not k.startswith("_") and x is not None and k not in consts}}
        if with_cls:
            src = getattr(type(v), "__partial_src__", type(v))
            _classes[id(src)] = src
            out["__cls__"] = id(src)
        return out
    if isinstance(v, list):
        return [struct(x, with_cls) for x in v]
    if isinstance(v, (set, frozenset)):
        return {"__set__": sorted((json.dumps(struct(x), sort_keys=True, default=str) for x in v))}
    if isinstance(v, dict):
        return {k: struct(x, with_cls) for k, x in v.items()}
    return v if isinstance(v, (bool, int, float, str, type(None))) else ("obj", type(v).__name__, str(v))


def strip(s):
    """Comparison form: class ids dropped and model wrappers flattened (after a cross-class cast the fields that only the
    subclass declares live on as extra fields of the parent-class partial, where a nested model is a plain dict)."""
    if isinstance(s, dict):
        if "__model__" in s:
            return strip(s["__model__"])
        if "__set__" in s and isinstance(s["__set__"], list):
            # elements are compared by their class-free representation: two partial objects of DIFFERENT (unrelated) classes with
            # equal content are one element here (which class a parsed dict gets at a Union-typed position is outside the claim)
            return {"__set__": sorted(set(s["__set__"]))}
        return {k: strip(v) for k, v in s.items() if k != "__cls__"}
    if isinstance(s, list):
        return [strip(x) for x in s]
    return s


def spec_merge(a, b, allow_overwrite):
    """Specification of merge on structures (with class ids at model positions)."""
    if a is None:
        return b
    if b is None:
        return a
    if isinstance(a, list) and isinstance(b, list):
        return a + b
    if isinstance(a, dict) and "__set__" in a and isinstance(b, dict) and "__set__" in b:
        return {"__set__": sorted(set(a["__set__"]) | set(b["__set__"]))}
    if isinstance(a, dict) and "__model__" in a and isinstance(b, dict) and "__model__" in b:
        ca, cb = _classes.get(a.get("__cls__")), _classes.get(b.get("__cls__"))
        if ca is not None and cb is not None and not (issubclass(ca, cb) or issubclass(cb, ca)):
            _unrelated[0] += 1  # documented: unrelated classes are opaque values (order-dependent, outside the claim)
            if not allow_overwrite:
                raise Conflict()
            return b
        fa, fb = a["__model__"], b["__model__"]
        out = {"__model__": {k: spec_merge(fa.get(k), fb.get(k), allow_overwrite) for k in list(fa) + [k for k in fb if k not in fa]}}
        if "__cls__" in a:
            out["__cls__"] = a["__cls__"]
        return out
    am, bm = isinstance(a, dict) and "__model__" in a, isinstance(b, dict) and "__model__" in b
    if am != bm:
        # a model and an opaque value at one position (Union[URL, Model]): "new overwrites" next to "recursive merge" is
        # order-dependent by the documented rules themselves; like unrelated classes this is outside the associativity claim
        _unrelated[0] += 1
    if not allow_overwrite:
        raise Conflict()
    return b


def deep_diff(x, y, path=""):
    """Path and values of the first difference between two comparison forms."""
    if isinstance(x, dict) and isinstance(y, dict):
        for k in list(x) + [k for k in y if k not in x]:
            if x.get(k) != y.get(k):
                return deep_diff(x.get(k), y.get(k), f"{path}.{k}")
    if isinstance(x, list) and isinstance(y, list) and len(x) == len(y):
        for i, (u, v) in enumerate(zip(x, y)):
            if u != v:
                return deep_diff(u, v, f"{path}[{i}]")
    return f"{path or '.'}: {str(x)[:160]!r} vs {str(y)[:160]!r}"


_contract = {"installed": False, "evals": 0, "violations": []}


class OperandMutated(Exception):
    pass


def install_contract():
    """icontract frame contract on the real PartialModel.merge_with (covers internal calls of merge/harvest)."""
    if _contract["installed"]:
        return
    import icontract
    from metador_core.schema.partial import PartialModel

    def snap_self(self):
        return json.dumps(struct(self), sort_keys=True, default=str)

    def snap_obj(obj):
        return json.dumps(struct(obj), sort_keys=True, default=str)

    def operands_unchanged(self, obj, OLD):
        _contract["evals"] += 1
        return snap_self(self) == OLD.s and snap_obj(obj) == OLD.o

    w = icontract.ensure(operands_unchanged, error=OperandMutated)(PartialModel.merge_with)
    w = icontract.snapshot(snap_obj, name="o")(w)
    w = icontract.snapshot(snap_self, name="s")(w)
    PartialModel.merge_with = w
    _contract["installed"] = True


def do_merge(a, b, allow_overwrite):
    """-> ('ok', partial) | ('conflict',) | ('bad', exception)"""
    from pydantic import ValidationError
    try:
        return ("ok", a.merge_with(b, allow_overwrite=allow_overwrite))
    except ValueError as e:  # ValidationError is a ValueError
        return ("conflict", e)
    except OperandMutated as e:
        return ("mutated", e)
    except Exception as e:
        return ("bad", e)


def has_objects(v):
    from pydantic import BaseModel
    if isinstance(v, BaseModel):
        return True
    if isinstance(v, dict):
        return any(has_objects(x) for x in v.values())
    if isinstance(v, (list, tuple)):
        return any(has_objects(x) for x in v)
    return False


def variants(P, S, d, rng, tmp, acc):
    """The same content as a partial, obtained in one of the ways the library produces partials."""
    import yaml
    how = rng.choice(["parse_obj", "json", "yaml", "to_partial", "cast", "loader"])
    if has_objects(d):
        # subclass OBJECTS at parent-typed positions only survive object-preserving routes; serialising them would turn the
        # subclass's fields into unvalidated extra fields of the parent class (raw JSON values), which is a different input
        how = rng.choice(["to_partial", "cast", "to_partial", "parse_obj"])
    if how == "parse_obj":
        return how, P.parse_obj(d)
    from vlib.schemagen import jsonable
    if how == "json":
        return how, P.parse_raw(json.dumps(jsonable(d), default=str))
    if how == "yaml":
        return how, P.parse_raw(yaml.safe_dump(json.loads(json.dumps(jsonable(d), default=str))))
    if how in ("to_partial", "cast"):
        try:
            full = S.parse_obj(d)
            return how, (P.to_partial(full) if how == "to_partial" else P.cast(full))
        except Exception:
            return "parse_obj", P.parse_obj(d)
    from metador_core.harvester import harvest, metadata_loader
    p = tmp / f"side{rng.randrange(1 << 30)}.yaml"
    p.write_text(yaml.safe_dump(json.loads(json.dumps(jsonable(d), default=str))))
    return how, harvest(S, [metadata_loader(S)(filepath=p)], return_partial=True)


FALSY = [0, False, 0.0, [], "0", " "]


def correlated(rng, S, G):
    """Three correlated input dicts for class S."""
    amap = {f.alias: n for n, f in S.__fields__.items()}

    def norm(d):  # one key per field (a dict giving both alias and name of one field is not a sensible input)
        return {amap.get(k, k): v for k, v in d.items()}

    base = norm(G.gen_model_dict(S, rng, p_optional=0.7))
    out = []
    for _ in range(3):
        d = {}
        other = norm(G.gen_model_dict(S, rng, p_optional=0.6))
        for k in set(base) | set(other):
            r = rng.random()
            if r < 0.35 and k in base:
                d[k] = copy.deepcopy(base[k])
            elif r < 0.65 and k in other:
                d[k] = other[k]
            elif r < 0.75:
                d[k] = rng.choice(FALSY)
        if rng.random() < 0.5:  # sometimes address the fields by alias
            d = {S.__fields__[k].alias if k in S.__fields__ else k: v for k, v in d.items()}
        out.append(d)
    return out


def check_triple(acc, S, P, ds, rng, tmp):
    from pydantic import ValidationError
    parts = []
    hows = []
    for d in ds:
        try:
            how, p = variants(P, S, d, rng, tmp, acc)
        except Exception:  # invalid candidate input (whatever the parser raises): not an instance
            # drop invalid fields one by one (falsy injections may be invalid for the field type)
            ok = {}
            for k, v in d.items():
                try:
                    P.parse_obj({k: v})
                    ok[k] = v
                except Exception:
                    pass
            try:
                how, p = "parse_obj", P.parse_obj(ok)
            except Exception:
                return None
        parts.append(p)
        hows.append(how)
        acc.count(f"partials_by.{how}")
    a, b, c = parts
    for x in parts:
        for fname, fv in x.__dict__.items():
            f = S.__fields__.get(fname)
            if f is not None and hasattr(fv, "__fields__") and isinstance(f.type_, type):
                src = getattr(type(fv), "__partial_src__", type(fv))
                if src is not f.type_ and issubclass(src, f.type_):
                    acc.count("nested_subclass_positions")
    sa, sb, sc = (struct(x, True) for x in parts)
    _unrelated[0] = 0
    e = P()
    name = S.__name__
    shared = set(sa["__model__"]) & set(sb["__model__"])
    falsy_or_coll = any(v in (0, False, 0.0) or isinstance(v, (list, dict)) for s in (sa, sb, sc) for v in s["__model__"].values())
    acc.case([name, sorted(S.__fields__), json.dumps([sa, sb, sc], sort_keys=True, default=str)], nontrivial=bool(shared) and falsy_or_coll)

    def bad(kind, detail):
        hints = {k: str(f.outer_type_)[:40] for k, f in S.__fields__.items() if k in sa["__model__"] or k in sb["__model__"]}
        return kind, f"{name}: {detail} | a={json.dumps(sa, default=str)[:300]} b={json.dumps(sb, default=str)[:300]} c={json.dumps(sc, default=str)[:200]} (obtained by {hows}; field types {hints})"

    # harvesters may complete (and thereby validate) their own output before it is merged
    for x in parts:
        try:
            x.from_partial()
            acc.count("operands_completed_before_merge")
        except Exception:
            pass
    # identities
    for side, r in (("left", do_merge(e, a, False)), ("right", do_merge(a, e, False))):
        acc.count("law.identity")
        if r[0] != "ok":
            return bad(f"identity-{side}-raised", f"merge with the empty partial raised {type(r[1]).__name__}: {str(r[1])[:120]}")
        if strip(struct(r[1])) != strip(sa):
            lost = [k for k in sa["__model__"] if k not in struct(r[1])["__model__"]]
            return bad(f"identity-{side}", f"e.p != p: fields {lost or 'changed'} (values {[sa['__model__'][k] for k in lost][:3]})")
    # binary merge vs specification, both overwrite modes
    for ow in (False, True):
        acc.count("law.binary")
        r = do_merge(a, b, ow)
        try:
            want = spec_merge(sa, sb, ow)
        except Conflict:
            want = Conflict
        if r[0] == "mutated":
            return bad("operand-mutated", "merge_with changed one of its operands")
        if r[0] == "bad":
            return bad(f"unexpected-exception:{type(r[1]).__name__}", f"merge raised {type(r[1]).__name__}: {str(r[1])[:150]}")
        if want is Conflict:
            if r[0] == "ok":
                return bad("conflict-not-raised", "conflicting merge without allow_overwrite did not raise")
        else:
            if r[0] != "ok":
                return bad("merge-raised", f"merge raised {type(r[1]).__name__} although nothing conflicts (allow_overwrite={ow}): {str(r[1])[:120]}")
            want = strip(want)
            got = strip(struct(r[1]))
            if got != want:
                return bad("merge-result", f"got vs specification differ at {deep_diff(got, want)} (allow_overwrite={ow})")
    # associativity (same outcome class and same structure); claimed only under the chain condition
    try:
        spec_merge(spec_merge(sa, sb, True), sc, True)
        spec_merge(sa, spec_merge(sb, sc, True), True)
    except Conflict:
        pass
    chain_ok = _unrelated[0] == 0
    if not chain_ok:
        acc.count("triples_outside_chain_condition")
    for ow in ((False, True) if chain_ok else ()):
        acc.count("law.associativity")
        ab = do_merge(a, b, ow)
        left = do_merge(ab[1], c, ow) if ab[0] == "ok" else ab
        bc = do_merge(b, c, ow)
        right = do_merge(a, bc[1], ow) if bc[0] == "ok" else bc
        if "bad" in (left[0], right[0]) or "mutated" in (left[0], right[0]):
            x = left if left[0] in ("bad", "mutated") else right
            return bad(f"unexpected-exception:{type(x[1]).__name__}", f"{type(x[1]).__name__}: {str(x[1])[:150]}")
        if left[0] != right[0]:
            return bad("associativity-outcome", f"(a.b).c {left[0]} but a.(b.c) {right[0]} (allow_overwrite={ow})")
        if left[0] == "ok" and strip(struct(left[1])) != strip(struct(right[1])):
            gl, gr = strip(struct(left[1])), strip(struct(right[1]))
            return bad("associativity", f"(a.b).c != a.(b.c) (allow_overwrite={ow}) at {deep_diff(gl, gr)}")
    # completing a merge result gives an object that carries exactly what the merged partial carries
    rab = do_merge(a, b, True)
    if rab[0] == "ok":
        try:
            full = rab[1].from_partial()
        except Exception:
            full = None
        if full is not None:
            acc.count("law.completion_of_merge_result")
            back = strip(struct(P.to_partial(full)))
            want = strip(struct(rab[1]))
            lost = {k: v for k, v in want.items() if v not in (None, [], {"__set__": []}) and back.get(k) in (None,) }
            if lost:
                return bad("completion-loses-merged-values", f"from_partial() of the merge result lacks {sorted(lost)[:4]} (e.g. {str(list(lost.values())[0])[:80]}) that the merged partial holds")
            for k, v in want.items():
                if isinstance(v, list) and isinstance(back.get(k), list) and len(back[k]) != len(v):
                    return bad("completion-loses-merged-values", f"from_partial() of the merge result has {len(back[k])} items in {k}, the merged partial {len(v)}")
    # n-ary merge = fold
    acc.count("law.fold")
    try:
        m = P.merge(a, b, c, allow_overwrite=True)
        if chain_ok and strip(struct(m)) != strip(spec_merge(spec_merge(sa, sb, True), sc, True)):
            return bad("nary-merge", "merge(a,b,c) is not the left fold of merge_with: " + deep_diff(strip(struct(m)), strip(spec_merge(spec_merge(sa, sb, True), sc, True))))
    except Exception as ex:
        return bad(f"unexpected-exception:{type(ex).__name__}", f"merge(a,b,c) raised {type(ex).__name__}: {str(ex)[:150]}")
    return None


def check_complete(acc, S, P, rng, G):
    for d, obj in G.instances(S, rng, 3):
        acc.count("law.to_from_partial")
        try:
            back = P.to_partial(obj).from_partial()
        except Exception as e:
            return "to-from-partial-raised", f"{S.__name__}: from_partial(to_partial(x)) raised {type(e).__name__}: {str(e)[:150]}"
        if back != obj:
            return "to-from-partial", f"{S.__name__}: from_partial(to_partial(x)) != x for {obj.json()[:200]}"
    return None


def run_class(acc, S, rng, ntriples, tmp, G, origin):
    try:
        P = S.Partial
    except Exception as e:
        # no partial class exists for this schema, hence no partial instances: outside the statement; reported as observation
        acc.count(f"observation.partial_class_unavailable.{S.__name__}" if origin == "installed" else "observation.partial_class_unavailable.generated")
        acc.note(f"{S.__name__}.Partial cannot be created: {type(e).__name__}: {str(e)[:120]}") if origin == "installed" else None
        return
    acc.count(f"classes.{origin}")
    r = check_complete(acc, S, P, rng, G)
    if r:
        acc.violation(f"{r[0]}:{origin}", r[1], {"class": S.__name__, "origin": origin})
        return
    for _ in range(ntriples):
        try:
            ds = correlated(rng, S, G)
        except G.Skip:
            acc.count("classes_skipped_unsupported_type")
            return
        r = check_triple(acc, S, P, ds, rng, tmp)
        if r:
            acc.violation(f"{r[0]}:{origin}", r[1], {"class": S.__name__, "origin": origin, "inputs": json.loads(json.dumps(G.jsonable(ds), default=str)), "unit": _unit[0]})
            return
        if acc.evaluations % 500 == 1:
            acc.sample({"class": S.__name__, "fields": {k: str(f.outer_type_)[:50] for k, f in list(S.__fields__.items())[:6]},
                        "triple": json.loads(json.dumps(G.jsonable(ds), default=str))})


def harvester_case(acc, rng, tmp):
    """FileMetaHarvester on a real file + sidecar partial, folded by harvest()."""
    import yaml
    from metador_core.harvester import harvest, metadata_loader
    from metador_core.plugins import harvesters, schemas
    FileMeta = schemas.get("core.file", (0, 1, 0))
    hv = harvesters["core.file.generic"]
    f = tmp / f"data{rng.randrange(1 << 30)}.bin"
    f.write_bytes(rng.randbytes(rng.choice([0, 1, 100])))
    side = Path(str(f) + "_meta.yaml")
    extra = {"name": "nm", "description": "d"} if rng.random() < 0.5 else {"alternateName": ["x", "y"]}
    side.write_text(yaml.safe_dump(extra))
    acc.count("harvest_pipelines")
    before = _contract["evals"]
    try:
        part = harvest(FileMeta, [hv(filepath=f), metadata_loader(FileMeta, use_sidecar=True)(filepath=f)], return_partial=True)
        full = part.from_partial()
    except Exception as e:
        return "harvest-raised", f"harvest pipeline raised {type(e).__name__}: {str(e)[:200]}"
    if _contract["evals"] == before:
        return "contract-not-reached", "harvest() performed no monitored merge"
    if full.contentSize != f.stat().st_size or any(getattr(full, k) != (v if not isinstance(v, list) else v) for k, v in extra.items()):
        return "harvest-lost-value", f"harvest result lost a provided value: {full.json()[:200]}"
    return None


def units(tier, seed):
    n = 40 if tier == "quick" else 1600
    us = [{"kind": "generated", "seed": seed * 6007 + i, "families": 4, "triples": 60 if tier == "quick" else 120} for i in range(0, n, 4)]
    us += [{"kind": "installed", "seed": seed * 19 + i, "triples": 25 if tier == "quick" else 200} for i in range(2 if tier == "quick" else 16)]
    return us


_unit = [None]


def run_unit(u, acc):
    _unit[0] = u
    from vlib import families as F
    from vlib import schemagen as G
    F.register()
    install_contract()
    rng = random.Random(u["seed"])
    tmp = acc.newdir("c14")
    try:
        if u["kind"] == "generated":
            for _ in range(u["families"]):
                for S in G.gen_family(rng, 4, tag="M"):
                    run_class(acc, S, rng, u["triples"], tmp, G, "generated")
            for _ in range(2):  # inheritance chains at nested positions (subclass objects where the parent class is declared)
                fam = G.gen_chain_family(rng, tag="H")
                run_class(acc, fam[-1], rng, u["triples"] * 2, tmp, G, "generated-chain")
        else:
            from metador_core.plugins import schemas
            for ref in schemas.keys():
                run_class(acc, schemas.get(ref.name, tuple(ref.version)), rng, u["triples"], tmp, G, "installed")
            for _ in range(6):
                r = harvester_case(acc, rng, tmp)
                if r:
                    acc.violation(r[0], r[1], {"kind": "harvester"})
        acc.count("contract_evaluations", _contract["evals"])
        _contract["evals"] = 0
    finally:
        acc.rmdir(tmp)


def inconclusive(cov):
    c = cov["counters"]
    return [f"monitor counter {k} is zero" for k in ("law.identity", "law.binary", "law.associativity", "law.to_from_partial", "law.completion_of_merge_result", "contract_evaluations",
                                                  "harvest_pipelines", "partials_by.yaml", "partials_by.to_partial", "partials_by.loader", "classes.generated-chain", "nested_subclass_positions") if not c.get(k)]


def replay(case, acc):
    for u in ([case["unit"]] if case.get("unit") else units("quick", 0)[:4] + units("quick", 0)[-1:]):
        run_unit(u, acc)
