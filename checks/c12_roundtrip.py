"""C12 — schema instances survive serialisation (JSON, YAML, bytes); constants present and ignored on input."""
from __future__ import annotations

import json
import random
from pathlib import Path

PROPERTY = "C12"
LEVEL = "exploration"
RULE = (
    "(1) all installed schema plugins and the harness families, (2) schema classes generated from the documented "
    "field-type grammar (strict primitives, NonEmptyStr/MimeTypeStr/hashsum strings, Duration, PintUnit, PintQuantity, "
    "AnyHttpUrl, enums, Literal, Optional, Union, List, Set, nested and recursive schemas, aliases, add_const_fields/ld "
    "decorators, inheritance with make_mandatory). Instances from a type-directed generator with a boundary corpus "
    "(YAML-hostile strings, extreme ints/floats, durations, compound units), validated by constructing the model "
    "(rejected candidates counted); missing optionals are omitted. For every instance o of S: bytes(o), o.json(), "
    "o.yaml() (parse_raw and parse_file) and json_dict() must parse back with S to an object == o (an explicit None for a field "
    "with a non-None default legitimately reads back as the default; byte-identity of a second dump is only counted); every declared constant is in the output with its value and a "
    "different constant on input does not change the parsed object. non-trivial = instance with >=2 provided fields; "
    "distinct = (class shape, instance JSON)."
)
ANCHORS = ["src/metador_core/schema/base.py", "src/metador_core/schema/core.py", "src/metador_core/schema/encoder.py",
           "src/metador_core/schema/parser.py", "src/metador_core/schema/types.py", "src/metador_core/schema/decorators.py"]
ASSUMPTIONS = ["equality is pydantic model equality", "candidates the model constructor rejects are not instances (counted, with an acceptance floor)"]
WORKERS = {"quick": 12, "thorough": 16}


def has_set(v):
    if isinstance(v, (set, frozenset)):
        return True
    if isinstance(v, dict):
        return any(has_set(x) for x in v.values())
    if isinstance(v, (list, tuple)):
        return any(has_set(x) for x in v)
    if hasattr(v, "__dict__") and hasattr(v, "__fields__"):
        return any(has_set(x) for x in v.__dict__.values())
    return False


def only_none_vs_default(a, b, fold=False, need_default_case=True):
    """True iff a and b (same model class) differ ONLY at positions where a holds None and b holds the non-None default that
    the field declares (recursively through nested models and lists)."""
    from pydantic import BaseModel
    found = [False]

    def same(x, y):
        if isinstance(x, BaseModel) and isinstance(y, BaseModel) and type(x) is type(y):
            for fname, f in type(x).__fields__.items():
                vx, vy = x.__dict__.get(fname), y.__dict__.get(fname)
                if vx is None and vy is not None and f.default is not None and vy == f.default:
                    found[0] = True
                    continue
                if not same(vx, vy):
                    return False
            return True
        if isinstance(x, (list, tuple)) and isinstance(y, (list, tuple)) and len(x) == len(y):
            return all(same(p, q) for p, q in zip(x, y))
        return (nel_fold(x) == nel_fold(y)) if fold else (x == y)

    return same(a, b) and (found[0] or not need_default_case)


def nel_fold(x):
    """x with every U+0085 in every string replaced by a space (what the YAML reader makes of it)."""
    if isinstance(x, str):
        return x.replace("\x85", " ")
    if isinstance(x, dict):
        return {k: nel_fold(v) for k, v in x.items()}
    if isinstance(x, (set, frozenset)):
        return frozenset(nel_fold(v) for v in x)
    if isinstance(x, (list, tuple)):
        return [nel_fold(v) for v in x]
    return x


def nested_constants(obj, path=()):
    """(path in the serialised document, declared constants) for every nested schema object below obj."""
    from pydantic import BaseModel
    fields = getattr(obj, "__fields__", {})
    for fname, v in getattr(obj, "__dict__", {}).items():
        key = fields[fname].alias if fname in fields else fname
        yield from _nested_value(v, path + (key,))


def _nested_value(v, path):
    from pydantic import BaseModel
    if isinstance(v, BaseModel):
        c = getattr(type(v), "__constants__", None)
        if c:
            yield path, dict(c)
        yield from nested_constants(v, path)
    elif isinstance(v, (list, tuple)):
        for i, x in enumerate(v):
            yield from _nested_value(x, path + (i,))
    elif isinstance(v, dict):
        for k, x in v.items():
            yield from _nested_value(x, path + (k,))


def check_instance(cls, obj, acc, tmp: Path, origin, consts=None):
    """-> (kind, detail) or None"""
    name = cls.__name__
    try:
        b = bytes(obj)
        j = obj.json()
        y = obj.yaml()
        jd = obj.json_dict()
    except Exception as e:
        return "serialise-raised", f"{name}: serialisation raised {type(e).__name__}: {str(e)[:150]}"
    forms = {"bytes": lambda: cls.parse_raw(b), "json": lambda: cls.parse_raw(j), "yaml": lambda: cls.parse_raw(y),
             "json_dict": lambda: cls.parse_obj(jd)}
    if acc.evaluations % 7 == 0:
        (tmp / "o.yaml").write_text(y, encoding="utf-8")
        (tmp / "o.json").write_bytes(b)
        forms["yaml-file"] = lambda: cls.parse_file(tmp / "o.yaml")
        forms["json-file"] = lambda: cls.parse_file(tmp / "o.json")
    for form, fn in forms.items():
        acc.count(f"roundtrips.{form}")
        try:
            back = fn()
        except Exception as e:
            return f"reparse-raised:{form}", f"{name}: parsing its own {form} output raised {type(e).__name__}: {str(e)[:160]} | {j[:200]}"
        if back != obj:
            diff = [k for k in obj.__dict__ if obj.__dict__.get(k) != back.__dict__.get(k)]
            k = diff[0] if diff else "?"
            if only_none_vs_default(obj, back):
                # legitimate by the property's own wording: None means 'missing', an explicit None given for a field that declares
                # a non-None default reads back as that default (counted, not a violation)
                acc.count("observation.explicit_none_reads_back_as_default")
                continue
            if form in ("yaml", "yaml-file") and "\\u0085" in j and (nel_fold(obj.dict()) == nel_fold(back.dict())
                                                                    or only_none_vs_default(obj, back, fold=True, need_default_case=False)):
                # one mechanism, recorded as known finding: U+0085 (NEL) is written raw into the YAML text and read back as a line
                # break, i.e. folded into a space; everything else of the instance is equal
                return "KNOWN:yaml-nel-folded", f"{name}.{k}: {obj.__dict__.get(k)!r} became {back.__dict__.get(k)!r} via {form}"
            return f"roundtrip-differs:{form}", (f"{name}.{k}: {obj.__dict__.get(k)!r} became {back.__dict__.get(k)!r} via {form}")
        if form == "bytes" and not has_set(obj):
            if bytes(back) != b:
                # (byte-identity of a second dump is not part of the statement, equality of the instances is: counted as observation)
                acc.count("observation.second_dump_not_byte_identical")
    # constants of NESTED schema objects (wherever the value sits, however it was built) in every textual form
    nested = list(nested_constants(obj))
    if nested:
        acc.count("nested_constant_checks")
        import yaml as _yaml
        docs = {"bytes": json.loads(b), "json": json.loads(j), "yaml": _yaml.safe_load(y), "json_dict": jd}
        for form, doc in docs.items():
            for path, want in nested:
                cur = doc
                try:
                    for seg in path:
                        cur = cur[seg]
                except (KeyError, IndexError, TypeError):
                    cur = None
                if not isinstance(cur, dict):
                    continue  # (position not addressable in this form, e.g. a set serialised in another order)
                for ck, cv in want.items():
                    if ck not in cur or json.dumps(cur[ck], sort_keys=True, default=str) != json.dumps(cv, sort_keys=True, default=str):
                        return f"constant-missing:{form}", f"{name}: nested object at {'/'.join(map(str, path))} lacks its constant {ck}={cv!r} in the {form} output: {str(cur)[:120]}"
    consts = consts if consts is not None else (getattr(cls, "__constants__", {}) or {})
    if consts:
        acc.count("constant_checks")
        for ck, cv in consts.items():
            if ck not in jd or json.dumps(jd[ck], sort_keys=True) != json.dumps(cv, sort_keys=True):  # (type-exact: False is not 0)
                return "constant-missing", f"{name}: constant {ck}={cv!r} absent/changed in output: {jd.get(ck)!r}"
        tam = dict(jd)
        for ck in consts:
            tam[ck] = "tampered"
        try:
            back = cls.parse_obj(tam)
        except Exception as e:
            return "constant-input", f"{name}: input with another constant value rejected: {type(e).__name__}"
        if back != obj:
            return "constant-input", f"{name}: another constant value on input changed the parsed object"
    return None


def run_classes(acc, classes, rng, per, origin, tmp, consts_of=None):
    from vlib import schemagen as G
    for cls in classes:
        stats = {}
        n = 0
        for d, obj in G.instances(cls, rng, per, stats):
            n += 1
            nfields = len([k for k, v in obj.__dict__.items() if v is not None])
            acc.case([origin, cls.__name__, sorted(cls.__fields__), json.dumps(d, sort_keys=True, default=str)], nontrivial=nfields >= 2)
            r = check_instance(cls, obj, acc, tmp, origin, consts_of.get(cls) if consts_of else None)
            if r and r[0].startswith("KNOWN:"):
                acc.violation(r[0][6:], f"{r[1]} [input {json.dumps(d, default=str)[:300]}]",
                              {"origin": origin, "class": cls.__name__, "input": json.loads(json.dumps(d, default=str))})
                continue  # (does not end the examination of this class)
            if r:
                acc.violation(f"{r[0]}:{origin}", f"{r[1]} [input {json.dumps(d, default=str)[:300]}]",
                              {"origin": origin, "class": cls.__name__, "input": json.loads(json.dumps(d, default=str))})
                break
            if acc.evaluations % 400 == 1:
                acc.sample({"origin": origin, "class": cls.__name__, "fields": {k: str(f.outer_type_)[:60] for k, f in list(cls.__fields__.items())[:8]},
                            "instance": json.loads(obj.json())})
        acc.count(f"classes.{origin}")
        acc.count("candidates_rejected", stats.get("rejected", 0))
        acc.count("candidates_accepted", stats.get("accepted", 0))
        if stats.get("skip"):
            acc.count("classes_skipped_unsupported_type")
        if n == 0 and not stats.get("skip"):
            acc.count("classes_without_instance")
        for f in cls.__fields__.values():
            acc.seen("field_types", str(f.outer_type_)[:50])


def units(tier, seed):
    us = [{"kind": "installed", "seed": seed * 3 + i, "per": 40 if tier == "quick" else 400} for i in range(2 if tier == "quick" else 16)]
    n = 150 if tier == "quick" else 3600
    us += [{"kind": "generated", "seed": seed * 7717 + i, "families": 5, "per": 40} for i in range(0, n, 20)]
    return us


def run_unit(u, acc):
    from vlib import families as F
    from vlib import schemagen as G
    F.register()
    rng = random.Random(u["seed"])
    tmp = acc.newdir("c12")
    try:
        if u["kind"] == "installed":
            from metador_core.plugins import schemas
            classes = [schemas.get(r.name, tuple(r.version)) for r in schemas.keys()]
            run_classes(acc, classes, rng, u["per"], "installed", tmp)
            # the same plugins obtained WITHOUT a version (marked classes handed out by schemas[name] / schemas.get(name))
            names = sorted({r.name for r in schemas.keys()})
            unv = [schemas[n] for n in names[::2]] + [schemas.get(n) for n in names[1::2]]
            # declared constants are taken from the VERSIONED class of the same plugin (not from the class under test)
            truth = {}
            for c in unv:
                ref = schemas.resolve(c.Plugin.name)
                truth[c] = dict(schemas.get(ref.name, tuple(ref.version)).__constants__)
            run_classes(acc, unv, rng, max(6, u["per"] // 4), "installed-versionless", tmp, consts_of=truth)
        else:
            for _ in range(u["families"]):
                fam = G.gen_family(rng, 4)
                # constants are judged against what the GENERATOR declared, not against the class's own bookkeeping
                run_classes(acc, fam, rng, u["per"], "generated", tmp, consts_of={c: G.DECLARED.get(c, {}) for c in fam})
                acc.count("declared_falsy_constants", sum(1 for c in fam for v in G.DECLARED.get(c, {}).values() if not v and v is not None))
    finally:
        acc.rmdir(tmp)


def inconclusive(cov):
    c = cov["counters"]
    r = [f"monitor counter {k} is zero" for k in ("roundtrips.bytes", "roundtrips.yaml", "roundtrips.yaml-file", "constant_checks", "nested_constant_checks", "declared_falsy_constants",
                                                  "classes.installed", "classes.installed-versionless", "classes.generated") if not c.get(k)]
    acc, rej = c.get("candidates_accepted", 0), c.get("candidates_rejected", 0)
    if acc < 0.2 * (acc + rej):
        r.append(f"acceptance rate of the instance generator too low: {acc}/{acc + rej}")
    return r


def replay(case, acc):
    # re-run the generators (classes are generated, not stored); the witness input is in the case for reading
    for u in units("quick", 0)[:6]:
        run_unit(u, acc)
