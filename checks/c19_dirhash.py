"""C19 — directory hashsums identify content: independent walker oracle on generated real trees."""
from __future__ import annotations

import hashlib
import io
import os
import random
import shutil
from pathlib import Path

PROPERTY = "C19"
LEVEL = "exploration"
RULE = (
    "generated real directory trees (file sizes 0,1,63,64,65,127,128,129,4095-4097,65535-65537; nested and empty "
    "directories; symlinks to files, to directories, dangling, chained, with '..' segments staying inside; absolute and "
    "relative ESCAPING links to files and to directories). Oracle: an independent walker (os.scandir/lstat/readlink + "
    "hashlib) computes the expected tree. Pairs: same content re-created in shuffled order with altered mtimes must give "
    "equal trees; single edits (content byte, rename, add/remove, file<->dir, retarget of a link to another file WITH "
    "IDENTICAL CONTENT, link <-> regular file with the same bytes) must give unequal trees; hashsum(bytes)/hashsum(stream)"
    "/file_hashsum vs hashlib for chunk-boundary sizes with sha256 and sha512 and with short-reading streams; escaping "
    "link => ValueError. non-trivial = tree with >=1 symlink or nested directory; distinct = tree description."
)
ANCHORS = ["src/metador_core/util/hashsums.py"]
ASSUMPTIONS = ["symlink targets are compared after resolution relative to the base directory (where the link leads), as the implementation documents"]
WORKERS = {"quick": 8, "thorough": 16}
SIZES = [0, 1, 63, 64, 65, 127, 128, 129, 4095, 4096, 4097, 65535, 65536, 65537]


def expected_tree(base: Path):
    """Independent walker. Raises ValueError('escape') for links leading outside."""
    rb = os.path.realpath(base)

    def walk(d):
        out = {}
        with os.scandir(d) as it:
            for e in it:
                if e.is_symlink():
                    tgt = os.path.realpath(os.path.join(d, os.readlink(e.path)))
                    if tgt != rb and not tgt.startswith(rb + os.sep):
                        raise ValueError("escape")
                    out[e.name] = "symlink:" + (os.path.relpath(tgt, rb))
                elif e.is_dir(follow_symlinks=False):
                    out[e.name] = walk(e.path)
                else:
                    with open(e.path, "rb") as f:
                        out[e.name] = "sha256:" + hashlib.sha256(f.read()).hexdigest()
        return out
    return walk(str(base))


def content(rng, size):
    r = rng.random()
    if r < 0.2:
        return b"\x00" * size
    if r < 0.4:
        return (b"ab" * size)[:size]
    return rng.randbytes(size)


def gen_spec(rng, depth=5, budget=None):
    """Tree spec: name -> ('f', bytes) | ('d', spec) | ('l', target_text)."""
    budget = budget or [rng.randint(3, 18)]
    out = {}
    for _ in range(rng.randint(1, 5)):
        if budget[0] <= 0:
            break
        budget[0] -= 1
        name = rng.choice(["a", "b", "c", "d.txt", "e", "Z", "x y", "ü", "a.b", ".hidden", "ab"]) + rng.choice(["", "1", "2"])
        r = rng.random()
        if r < 0.3 and depth > 0:
            out[name] = ("d", gen_spec(rng, depth - 1, budget) if rng.random() < 0.8 else {})
        else:
            out[name] = ("f", content(rng, rng.choice(SIZES) if rng.random() < 0.7 else rng.randint(0, 300)))
    return out


def paths_of(spec, pre=""):
    fs, ds = [], []
    for k, (t, v) in spec.items():
        p = f"{pre}{k}"
        if t == "f":
            fs.append(p)
        elif t == "d":
            ds.append(p)
            f2, d2 = paths_of(v, p + "/")
            fs += f2
            ds += d2
    return fs, ds


def add_links(rng, spec):
    fs, ds = paths_of(spec)
    links = {}
    for i in range(rng.randint(0, 4)):
        r = rng.random()
        where = rng.choice([""] + [d + "/" for d in ds])
        up = "../" * where.count("/")
        if r < 0.1 and fs:
            tgt = "ABS:" + rng.choice(fs + ds)  # absolute path that stays inside the directory
        elif r < 0.4 and fs:
            tgt = up + rng.choice(fs)
        elif r < 0.6 and ds:
            tgt = up + rng.choice(ds)
        elif r < 0.7:
            tgt = up + "nowhere/dangling"
        elif r < 0.85 and fs and ds:
            tgt = up + rng.choice(ds) + "/../" + rng.choice(fs)  # '..' segment staying inside
        elif links:
            other = rng.choice(list(links))  # chained link
            tgt = up + other
        else:
            continue
        links[f"{where}L{i}"] = tgt
    return links


def materialise(spec, links, base: Path, rng=None):
    base.mkdir(parents=True)
    items = []

    def rec(s, p):
        for k, (t, v) in s.items():
            items.append((p / k, t, v))
            if t == "d":
                rec(v, p / k)
    rec(spec, base)
    # directories first (in order), then files in shuffled order
    dirs = [i for i in items if i[1] == "d"]
    files = [i for i in items if i[1] == "f"]
    if rng:
        rng.shuffle(files)
    for p, _, _ in dirs:
        p.mkdir(parents=True, exist_ok=True)
    for p, _, v in files:
        p.write_bytes(v)
        if rng:
            t = rng.randint(10 ** 8, 10 ** 9)
            os.utime(p, (t, t))
    ls = list(links.items())
    if rng:
        rng.shuffle(ls)
    for name, tgt in ls:
        (base / name).symlink_to(str(base.resolve() / tgt[4:]) if tgt.startswith("ABS:") else tgt)


def one_tree(rng, acc, d):
    from metador_core.util.hashsums import dir_hashsums
    d = Path(d)
    spec = gen_spec(rng)
    links = add_links(rng, spec)
    fs, ds = paths_of(spec)
    A, B = d / "A", d / "B"
    materialise(spec, links, A)
    materialise(spec, links, B, rng)
    case = {"files": {f: None for f in fs}, "dirs": ds, "links": links}
    acc.case(case | {"sizes": [len(v) for v in flat_files(spec).values()]}, nontrivial=bool(links) or bool(ds))
    want = expected_tree(A)
    ha, hb = dir_hashsums(A), dir_hashsums(B)
    acc.count("trees_hashed", 2)
    if ha != want:
        k = first_diff(ha, want)
        acc.violation("tree-vs-walker:" + k[1], f"dir_hashsums differs from the independent walker at {k[0]}: got {k[2]!r} expected {k[3]!r}; links={links}",
                      {"spec": describe(spec), "links": links})
        return
    # the same directory named differently: through a symlinked parent directory, with a '..' component, relative to the cwd
    alias_parent = d / "alias-parent"
    if not alias_parent.exists():
        os.symlink(d, alias_parent)
    spellings = {"symlinked parent": alias_parent / "A", "dotdot component": d / "B" / ".." / "A"}
    try:
        spellings["relative to cwd"] = Path(os.path.relpath(A))
    except ValueError:
        pass
    for how, pth in spellings.items():
        acc.count("spellings_hashed")
        try:
            hs = dir_hashsums(pth)
        except Exception as e:
            acc.violation(f"spelling-refused:{how}", f"dir_hashsums of the same directory named through a {how} raised {type(e).__name__}: {str(e)[:100]}; links={links}",
                          {"spec": describe(spec), "links": links})
            return
        if hs != ha:
            k = first_diff(hs, ha)
            acc.violation(f"spelling-differs:{how}", f"dir_hashsums of the same directory named through a {how} differs at {k[0]}", {"spec": describe(spec), "links": links})
            return
    if ha != hb:
        acc.violation("order-dependence", "same content created in another order / with other mtimes gives another tree", {"spec": describe(spec), "links": links})
        return
    acc.count("equal_content_pairs")
    # ---- single edits: trees must differ
    for edit in ("byte", "rename", "add", "remove", "file2dir", "dir2file", "retarget-same-content", "link2file", "file2link", "emptydir"):
        C = d / "C"
        shutil.rmtree(C, ignore_errors=True)
        materialise(spec, links, C)  # (not copytree: absolute in-directory links must point into C)
        ok = apply_edit(rng, edit, C, fs, ds, links, spec)
        if not ok:
            continue
        hc = dir_hashsums(C)
        acc.count(f"edits.{edit}")
        if hc == ha:
            acc.violation(f"edit-not-detected:{edit}", f"edit '{edit}' ({ok}) leaves the hashsum tree unchanged", {"spec": describe(spec), "links": links, "edit": edit})
            return
        if hc != expected_tree(C):
            acc.violation("tree-vs-walker:after-edit", f"after edit {edit} dir_hashsums differs from the walker", {"spec": describe(spec), "links": links, "edit": edit})
            return
    # ---- the SAME path, already hashed above, edited in place keeping its size and both timestamps (what an editor with
    # timestamp preservation, rsync -t or a restored backup does): content decides, not (path, size, mtime)
    ff = flat_files(spec)
    cand = [f for f in fs if len(ff[f]) > 0]
    if cand:
        f = rng.choice(cand)
        st = os.stat(A / f)
        b = bytearray(ff[f])
        i = rng.randrange(len(b))
        b[i] ^= 1 << rng.randrange(8)
        with open(A / f, "r+b") as fh:
            fh.write(bytes(b))
        os.utime(A / f, ns=(st.st_atime_ns, st.st_mtime_ns))
        st2 = os.stat(A / f)
        h2 = dir_hashsums(A)
        acc.count("edits.inplace-same-size-mtime")
        if (st2.st_size, st2.st_mtime_ns) == (st.st_size, st.st_mtime_ns):
            acc.count("edits.inplace-stat-identical")
        if h2 == ha:
            acc.violation("edit-not-detected:inplace-same-size-mtime", f"byte {i} of {f} changed in place (size and mtime kept): the hashsum tree of the same directory is unchanged",
                          {"spec": describe(spec), "links": links, "edit": "inplace"})
            return
        if h2 != expected_tree(A):
            acc.violation("tree-vs-walker:after-edit", "after the in-place edit dir_hashsums differs from the walker", {"spec": describe(spec), "links": links, "edit": "inplace"})
            return
    if acc.evaluations % 50 == 1:
        acc.sample({"files": {f: len(flat_files(spec)[f]) for f in fs}, "dirs": ds, "links": links})


def flat_files(spec, pre=""):
    out = {}
    for k, (t, v) in spec.items():
        if t == "f":
            out[pre + k] = v
        elif t == "d":
            out.update(flat_files(v, pre + k + "/"))
    return out


def describe(spec):
    return {k: (["f", len(v)] if t == "f" else ["d", describe(v)]) for k, (t, v) in spec.items()}


def first_diff(a, b, pre=""):
    for k in sorted(set(a) | set(b)):
        x, y = a.get(k), b.get(k)
        if x == y:
            continue
        if isinstance(x, dict) and isinstance(y, dict):
            return first_diff(x, y, pre + k + "/")
        kind = "missing" if x is None else "extra" if y is None else \
            "symlink-as-file" if isinstance(y, str) and y.startswith("symlink:") and isinstance(x, str) and not x.startswith("symlink:") else "value"
        return (pre + k, kind, x, y)
    return ("", "none", None, None)


def apply_edit(rng, edit, C: Path, fs, ds, links, spec):
    ff = flat_files(spec)
    if edit == "byte":
        c = [f for f in fs if len(ff[f]) > 0]
        if not c:
            return None
        f = rng.choice(c)
        b = bytearray(ff[f])
        i = rng.randrange(len(b))
        b[i] ^= 1 << rng.randrange(8)
        (C / f).write_bytes(bytes(b))
        return f"{f}[{i}]"
    if edit == "rename" and fs:
        f = rng.choice(fs)
        (C / f).rename(C / (f + ".ren"))
        return f
    if edit == "add":
        (C / rng.choice([""] + [x + "/" for x in ds]) / "added-file").write_bytes(b"new") if False else None
        p = C / (rng.choice([""] + [x + "/" for x in ds]) + "added-file")
        p.write_bytes(b"")
        return str(p.relative_to(C))
    if edit == "remove" and fs:
        f = rng.choice(fs)
        (C / f).unlink()
        return f
    if edit == "file2dir" and fs:
        f = rng.choice(fs)
        (C / f).unlink()
        (C / f).mkdir()
        return f
    if edit == "dir2file" and ds:
        x = rng.choice(ds)
        shutil.rmtree(C / x)
        (C / x).write_bytes(b"")
        return x
    if edit == "emptydir":
        p = C / (rng.choice([""] + [x + "/" for x in ds]) + "new-empty-dir")
        p.mkdir()
        return str(p.relative_to(C))
    if edit == "retarget-same-content":
        # a link to file X is retargeted to another file with IDENTICAL content
        (C / "twin1").write_bytes(b"same bytes")
        (C / "twin2").write_bytes(b"same bytes")
        (C / "twinlink").symlink_to("twin2")
        # baseline for this edit is A + twin1/twin2/twinlink->twin1; emulate by comparing two variants directly
        from metador_core.util.hashsums import dir_hashsums
        h2 = dir_hashsums(C)
        (C / "twinlink").unlink()
        (C / "twinlink").symlink_to("twin1")
        h1 = dir_hashsums(C)
        return "twinlink" if h1 != h2 else _fail_same("retarget")
    if edit == "link2file":
        (C / "t1").write_bytes(b"payload")
        (C / "maybe").symlink_to("t1")
        from metador_core.util.hashsums import dir_hashsums
        h1 = dir_hashsums(C)
        (C / "maybe").unlink()
        (C / "maybe").write_bytes(b"payload")
        h2 = dir_hashsums(C)
        return "maybe" if h1 != h2 else _fail_same("link-vs-file")
    if edit == "file2link" and links:
        k = rng.choice(list(links))
        (C / k).unlink()
        (C / k).write_bytes(b"now a file")
        return k
    return None


class _Same(Exception):
    pass


def _fail_same(what):
    raise _Same(what)


def escape_cases(rng, acc, d):
    from metador_core.util.hashsums import dir_hashsums
    d = Path(d)
    (d / "outside").mkdir()
    (d / "outside" / "secret").write_bytes(b"s")
    (d / "outside" / "odir").mkdir()
    variants = {
        "rel-file": "../outside/secret", "abs-file": str(d / "outside" / "secret"),
        "rel-dir": "../outside/odir", "abs-dir": str(d / "outside" / "odir"),
        "rel-dangling": "../outside/nothing", "nested-rel-file": None,
    }
    for name, tgt in variants.items():
        base = d / f"in-{name}"
        (base / "sub").mkdir(parents=True)
        (base / "f").write_bytes(b"x")
        if name == "nested-rel-file":
            (base / "sub" / "lnk").symlink_to("../../outside/secret")
        else:
            (base / "lnk").symlink_to(tgt)
        acc.case(["escape", name], nontrivial=True)
        acc.count("escape_checks")
        try:
            t = dir_hashsums(base)
            acc.violation(f"escape-accepted:{'file' if 'file' in name else 'dir' if 'dir' in name else 'dangling'}",
                          f"symlink leading outside the directory ({name} -> {tgt}) accepted: {t}", {"kind": "escape", "name": name})
        except ValueError:
            pass
    # siblings whose NAME extends / is a prefix of the directory's name (string-prefix tests are not path containment)
    for sib in ("data_v2", "data2", "data.bak", "dat"):
        (d / "pref").mkdir(exist_ok=True)
        base = d / "pref" / "data"
        shutil.rmtree(d / "pref", ignore_errors=True)
        (base / "sub").mkdir(parents=True)
        (base / "f").write_bytes(b"x")
        (d / "pref" / sib).mkdir()
        (d / "pref" / sib / "g.txt").write_bytes(b"g")
        for where, tgt in (("sub/lnk", f"../../{sib}/g.txt"), ("lnk2", str(d / "pref" / sib / "g.txt")), ("lnk3", f"../{sib}")):
            (base / where).symlink_to(tgt)
            acc.case(["escape-sibling", sib, where], nontrivial=True)
            acc.count("escape_checks")
            try:
                t = dir_hashsums(base)
                acc.violation("escape-accepted:prefix-sibling", f"symlink {where} -> {tgt} leads outside {base.name}/ (sibling {sib}) but was accepted: {t}",
                              {"kind": "escape", "name": f"sibling-{sib}"})
            except ValueError:
                pass
            (base / where).unlink()
    # link TEXT with '..' after a component that is itself a symlink to a directory: 'X/..' is where X points to, not lexical
    base = d / "dl" / "root"
    (base / "sub" / "deep").mkdir(parents=True)
    (base / "sub" / "x.txt").write_bytes(b"x")
    (base / "x.txt").write_bytes(b"other")
    (d / "dl" / "secret.txt").write_bytes(b"s")
    (base / "sub" / "up").symlink_to("..")            # in-directory link to root
    (base / "dlink").symlink_to("sub/deep")           # in-directory link to a nested directory
    cases = {"via-up-escape": ("lnk1", "sub/up/../secret.txt", "escape"),      # really root/../secret.txt
             "via-dlink-inside": ("lnk2", "dlink/../x.txt", "symlink:sub/x.txt")}  # really sub/x.txt, NOT x.txt
    for cname, (lname, text, want) in cases.items():
        (base / lname).symlink_to(text)
        acc.case(["escape-dirlink", cname], nontrivial=True)
        acc.count("escape_checks")
        try:
            t = dir_hashsums(base)
            if want == "escape":
                acc.violation("escape-accepted:through-dirlink", f"link text {text!r} really leads outside ({lname}) but was accepted: {t.get(lname)}", {"kind": "escape", "name": cname})
            elif t.get(lname) != want:
                acc.violation("link-target-lexical", f"link text {text!r} recorded as {t.get(lname)!r}, it really leads to {want!r}", {"kind": "escape", "name": cname})
        except ValueError:
            if want != "escape":
                acc.violation("inside-link-rejected", f"in-directory link {text!r} rejected", {"kind": "escape", "name": cname})
        (base / lname).unlink()
    # control: link with '..' that stays inside is accepted
    base = d / "in-ok"
    (base / "sub").mkdir(parents=True)
    (base / "f").write_bytes(b"x")
    (base / "sub" / "lnk").symlink_to("../f")
    t = dir_hashsums(base)
    if t.get("sub", {}).get("lnk") != "symlink:f":
        acc.violation("inside-link", f"in-directory link with '..' gives {t}", {"kind": "escape", "name": "inside"})


class ShortReader(io.RawIOBase):
    """Stream whose read() returns fewer bytes than requested (legal for binary streams)."""

    def __init__(self, data, rng):
        self.b, self.rng = io.BytesIO(data), rng

    def read(self, n=-1):
        if n is None or n < 0:
            return self.b.read()
        return self.b.read(self.rng.randint(1, max(1, n)))


def hash_cases(rng, acc, d):
    from metador_core.util.hashsums import file_hashsum, hashsum, qualified_hashsum
    for size in SIZES + [rng.randint(0, 70000) for _ in range(6)]:
        data = content(rng, size)
        for alg, h in (("sha256", hashlib.sha256), ("sha512", hashlib.sha512)):
            want = h(data).hexdigest()
            p = Path(d) / f"h{size}"
            p.write_bytes(data)
            got = {"bytes": hashsum(data, alg), "stream": hashsum(io.BytesIO(data), alg),
                   "short-reads": hashsum(ShortReader(data, rng), alg),
                   "qualified": qualified_hashsum(data, alg), "file": file_hashsum(p, alg)}
            acc.case(["hash", size, alg], nontrivial=True)
            acc.count("hash_checks", len(got))
            for k, v in got.items():
                w = f"{alg}:{want}" if k in ("qualified", "file") else want
                if v != w:
                    acc.violation(f"digest:{k}", f"{k} digest of {size} bytes ({alg}) is {v}, hashlib says {w}", {"kind": "hash", "size": size, "alg": alg})
    try:
        hashsum(b"x", "md5")
        acc.violation("digest:unsupported-alg", "unsupported algorithm accepted", {"kind": "hash", "alg": "md5"})
    except ValueError:
        pass


def units(tier, seed):
    n = 320 if tier == "quick" else 160000
    us = [{"kind": "trees", "seed": seed * 8191 + i, "n": 20} for i in range(0, n, 20)]
    us += [{"kind": "escape", "seed": seed + i} for i in range(2 if tier == "quick" else 8)]
    us += [{"kind": "hash", "seed": seed + i} for i in range(2 if tier == "quick" else 16)]
    return us


def run_unit(u, acc):
    rng = random.Random(u["seed"])
    if u["kind"] == "trees":
        for _ in range(u["n"]):
            d = acc.newdir("c19")
            try:
                one_tree(rng, acc, d)
            except _Same as e:
                acc.violation(f"edit-not-detected:{e}", f"{e}: two directories that differ only in where a link leads / link vs file get equal trees",
                              {"kind": "twin", "what": str(e)})
            finally:
                acc.rmdir(d)
    elif u["kind"] == "escape":
        d = acc.newdir("c19e")
        try:
            escape_cases(rng, acc, d)
        finally:
            acc.rmdir(d)
    else:
        d = acc.newdir("c19h")
        try:
            hash_cases(rng, acc, d)
        finally:
            acc.rmdir(d)


def inconclusive(cov):
    c = cov["counters"]
    return [f"monitor counter {k} is zero" for k in ("trees_hashed", "spellings_hashed", "equal_content_pairs", "escape_checks", "hash_checks", "edits.byte", "edits.inplace-stat-identical", "edits.retarget-same-content", "edits.link2file") if not c.get(k)]


def replay(case, acc):
    for k, s in (("trees", 0), ("escape", 0), ("hash", 0)):
        run_unit({"kind": k, "seed": s, "n": 40}, acc)
