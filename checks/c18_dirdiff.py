"""C18 — directory diffs exact and safely ordered: brute-force oracle + executable tree transformer."""
from __future__ import annotations

import copy
import itertools
import os
import random
import shutil
from pathlib import Path, PurePosixPath

PROPERTY = "C18"
LEVEL = "exploration"
RULE = (
    "snapshots as DirHashsums dicts. Bounded-exhaustive: all 400 trees over names {a,b}, depth <=2, leaves {file1, file2, "
    "symlink}, incl. empty directories; ALL 160000 ordered pairs in both tiers. "
    " Random: larger trees (<=40 entries, depth <=5) with single/multiple edits. Real directories: "
    "dir_hashsums before/after real edits + annotate(base_dir). Oracle: brute-force flattening (reported path set == "
    "{p: entry differs}, prev/curr/status per node, get(p) agrees with the listing, is_empty iff equal) and an executable "
    "transformer that replays nodes() on the old tree asserting: no removal/replacement of a non-empty directory, no "
    "addition under a missing parent, result == new tree. non-trivial = the two snapshots differ; distinct = the pair."
)
ANCHORS = ["src/metador_core/util/diff.py"]
WORKERS = {"quick": 16, "thorough": 16}
EXHAUSTIVE = {"quick": True, "thorough": True}

LE = ["sha256:aa", "sha256:bb", "symlink:a"]


def small_trees():
    opts = [None] + LE
    d1 = [{k: v for k, v in zip("ab", x) if v is not None} for x in itertools.product(opts, repeat=2)]
    opts2 = [None] + LE + d1
    t = [{k: copy.deepcopy(v) for k, v in zip("ab", x) if v is not None} for x in itertools.product(opts2, repeat=2)]
    return d1, t


def flat(t, pre=Path("")):
    out = {}
    for k, v in t.items():
        out[pre / k] = v
        if isinstance(v, dict):
            out.update(flat(v, pre / k))
    return out


class Bad(Exception):
    pass


def replay_nodes(prev, nodes, Status):
    t = copy.deepcopy(prev)

    def parent(p):
        cur = t
        for s in p.parts[:-1]:
            if s not in cur or not isinstance(cur[s], dict):
                raise Bad(f"order: parent of {p} does not exist (as directory) when {p} is processed")
            cur = cur[s]
        return cur

    for n in nodes:
        p = n.path
        if p == Path(""):
            continue
        st = n.status()
        par = parent(p)
        if st == Status.removed:
            if p.name not in par:
                raise Bad(f"order: removal of {p} which does not exist at that point")
            if isinstance(par[p.name], dict) and par[p.name] != {}:
                raise Bad(f"order: directory {p} removed before its children")
            del par[p.name]
        elif st == Status.added:
            if p.name in par:
                raise Bad(f"order: {p} added although it already exists")
            par[p.name] = {} if isinstance(n.curr, dict) else n.curr
        else:
            if p.name not in par:
                raise Bad(f"order: {p} modified but does not exist")
            old = par[p.name]
            if isinstance(n.curr, dict):
                if not isinstance(old, dict):
                    par[p.name] = {}
            else:
                if isinstance(old, dict) and old != {}:
                    raise Bad(f"order: non-empty directory {p} replaced by a file before its children were removed")
                par[p.name] = n.curr
    return t


def check_pair(a, b, acc, gen):
    from metador_core.util.diff import DiffNode, DirDiff
    acc.case([gen, a, b], nontrivial=a != b)
    try:
        d = DirDiff.compare(a, b)
        fa, fb = flat(a), flat(b)
        exp = {p for p in set(fa) | set(fb) if fa.get(p) != fb.get(p)}
        if d.is_empty != (a == b):
            raise Bad(f"is_empty={d.is_empty} although snapshots are {'equal' if a == b else 'different'}")
        nodes = [] if d.is_empty else d._diff_root.nodes()
        got = [x.path for x in nodes if x.path != Path("")]
        if len(got) != len(set(got)):
            raise Bad("a path is reported twice")
        if set(got) - exp:
            raise Bad(f"unchanged path reported: {sorted(set(got) - exp)[0]}")
        if exp - set(got):
            raise Bad(f"changed path not reported: {sorted(exp - set(got))[0]}")
        for x in nodes:
            if x.path == Path(""):
                continue
            if x.prev != fa.get(x.path) or x.curr != fb.get(x.path):
                raise Bad(f"node {x.path} carries prev/curr {x.prev!r}/{x.curr!r}, expected {fa.get(x.path)!r}/{fb.get(x.path)!r}")
            want = DiffNode.Status.added if x.path not in fa else DiffNode.Status.removed if x.path not in fb else DiffNode.Status.modified
            if x.status() != want or d.status(x) != want:
                raise Bad(f"node {x.path} has status {x.status()}, expected {want}")
            if d.get(x.path) is not x:
                raise Bad(f"get({x.path}) does not return the listed node")
            # (a str is accepted for the path as well, and any pure path flavour)
            if d.get(str(x.path)) is not x or d.get(PurePosixPath(x.path)) is not x:
                raise Bad(f"get({str(x.path)!r}) with a str / PurePosixPath argument does not return the listed node")
        for p in (set(fa) | set(fb)) - exp:
            if d.get(p) is not None or d.status(d.get(p)) != DiffNode.Status.unchanged:
                raise Bad(f"get({p}) returns a node for an unchanged path")
            if d.get(str(p)) is not None:
                raise Bad(f"get({str(p)!r}) returns a node for an unchanged path")
        if d.get(Path("zz/none")) is not None:
            raise Bad("get of a non-existing path returns a node")
        if replay_nodes(a, nodes, DiffNode.Status) != b:
            raise Bad("processing the nodes in order does not produce the new tree")
        acc.count("pairs_checked")
        acc.count("nodes_checked", len(nodes))
    except Bad as e:
        msg = str(e)
        acc.violation(msg.split(":")[0] if msg.startswith("order") else msg.split(" ")[0] + "-" + msg.split(" ")[1],
                      f"{msg}; prev={a} curr={b}", {"prev": a, "curr": b})
    except AssertionError as e:
        acc.violation("assertion-in-compare", f"compare raised AssertionError; prev={a} curr={b}", {"prev": a, "curr": b})


def rand_tree(rng, depth, budget):
    t = {}
    for _ in range(rng.randint(0, 5)):
        if budget[0] <= 0:
            break
        budget[0] -= 1
        k = rng.choice(["a", "b", "c", "d1", "e.txt", "f", "ab", "a.b", "a-b", "a b", "A", "ä", "a0", "10", "9"])
        r = rng.random()
        if r < 0.35 and depth > 0:
            t[k] = rand_tree(rng, depth - 1, budget)
        elif r < 0.85:
            t[k] = f"sha256:{rng.choice(['0a', '0A', 'ab', 'AB', 'Ab', '00', '01', '02'])}"
        else:
            t[k] = f"symlink:{rng.choice(['a', 'A', 'b/c', 'B/c', 'b/C', 'x'])}"
    return t


def edit_tree(rng, t):
    t = copy.deepcopy(t)
    for _ in range(rng.randint(1, 4)):
        cur = t
        while True:
            subs = [k for k, v in cur.items() if isinstance(v, dict)]
            if subs and rng.random() < 0.5:
                cur = cur[rng.choice(subs)]
            else:
                break
        r = rng.random()
        keys = list(cur)
        if r < 0.3 or not keys:
            cur[rng.choice(["n1", "n2", "a", "b", "a.b", "ab", "A"])] = rng.choice(["sha256:ff", {}, {"q": "sha256:01"}, "symlink:a", {"q": {"r": {"s": "sha256:03"}}}])
        elif r < 0.6:
            del cur[rng.choice(keys)]
        else:
            k = rng.choice(keys)
            if isinstance(cur[k], str) and rng.random() < 0.35:
                cur[k] = cur[k].swapcase()  # entry changed ONLY in letter case (hash text / link target are case-sensitive)
            else:
                cur[k] = rng.choice(["sha256:ee", {}, {"z": {"y": "sha256:02"}}, "symlink:b"]) if rng.random() < 0.7 else cur[k]
    return t


# ------------------------------------------------------------------ real directories


def real_case(rng, acc, d):
    from metador_core.util.diff import DirDiff
    from metador_core.util.hashsums import dir_hashsums
    base = Path(d) / "tree"
    base.mkdir()

    def materialise(t, p):
        for k, v in t.items():
            q = p / k
            if isinstance(v, dict):
                q.mkdir()
                materialise(v, q)
            elif v.startswith("symlink:"):
                continue
            else:
                q.write_bytes(v.encode())
    t0 = rand_tree(rng, 3, [25])
    materialise(t0, base)
    (base / "keep.txt").write_text("k")
    (base / "lnk").symlink_to("keep.txt")
    h0 = dir_hashsums(base)
    # real edits
    allp = sorted(base.rglob("*"))
    for _ in range(rng.randint(1, 5)):
        r = rng.random()
        files = [p for p in allp if p.is_file() and not p.is_symlink() and p.exists()]
        dirs = [p for p in allp if p.is_dir() and not p.is_symlink() and p.exists()] + [base]
        if r < 0.3 and files:
            rng.choice(files).write_bytes(os.urandom(4))
        elif r < 0.5 and files:
            p = rng.choice(files)
            p.unlink()
            if rng.random() < 0.4:
                p.mkdir()
                (p / "inner").write_text("i")
        elif r < 0.7:
            (rng.choice(dirs) / f"new{rng.randint(0, 9)}").write_text("n")
        elif r < 0.85:
            q = rng.choice(dirs) / f"nd{rng.randint(0, 9)}"
            q.mkdir(exist_ok=True)
        else:
            cand = [p for p in dirs if p != base and p.exists() and not p.is_symlink()]
            if cand:
                p = rng.choice(cand)
                shutil.rmtree(p)
                if rng.random() < 0.4:
                    p.write_text("was dir")
    h1 = dir_hashsums(base)
    check_pair(h0, h1, acc, "real")
    dd = DirDiff.compare(h0, h1)
    ann = dd.annotate(base)
    existing = {p for p in base.rglob("*")}
    diffpaths = set() if dd.is_empty else {base / str(n.path) for n in dd._diff_root.nodes()}
    acc.count("annotate_checks")
    if set(ann) != (existing | diffpaths if not dd.is_empty else set()):
        acc.violation("annotate-keys", f"annotate keys != diff paths + existing paths: {sorted(map(str, set(ann) ^ (existing | diffpaths)))[:3]}",
                      {"kind": "real", "seed": None})
        return
    # the changed entries of the annotated listing come in the order of nodes() (the update order a packer follows)
    listed = [p for p, n in ann.items() if n is not None]
    want_order = [] if dd.is_empty else [base / str(n.path) for n in dd._diff_root.nodes()]
    if listed != want_order:
        k = next((i for i, (a, b) in enumerate(zip(listed, want_order)) if a != b), min(len(listed), len(want_order)))
        acc.violation("annotate-order", f"annotate lists the changed paths in another order than nodes(): position {k}: "
                      f"{[str(x.relative_to(base)) for x in listed[k:k + 3]]} vs {[str(x.relative_to(base)) for x in want_order[k:k + 3]]}", {"kind": "real"})
        return
    if not dd.is_empty and any(ann[p] is not n for p, n in zip(want_order, dd._diff_root.nodes())):
        acc.violation("annotate-node", "annotate maps a changed path to another node than nodes() lists for it", {"kind": "real"})
        return
    f0, f1 = flat(h0), flat(h1)
    for p, n in ann.items():
        rel = p.relative_to(base)
        changed = f0.get(rel) != f1.get(rel) if rel != Path("") else h0 != h1
        if (n is None) == changed:
            acc.violation("annotate-none", f"annotate value for {rel} is {'None' if n is None else 'a node'} although the path is {'changed' if changed else 'unchanged'}", {"kind": "real"})
            return


# ------------------------------------------------------------------ runner interface


def units(tier, seed):
    us = []
    for i in range(400):  # cheap enough to be exhaustive in both tiers
        us.append({"kind": "ex", "i": i})
    us.append({"kind": "d1"})
    nr = 16 if tier == "quick" else 6400
    for i in range(nr):
        us.append({"kind": "random", "seed": seed * 101 + i, "n": 250})
    for i in range(8 if tier == "quick" else 64):
        us.append({"kind": "real", "seed": seed * 977 + i, "n": 12})
    return us


_T = None


def run_unit(u, acc):
    global _T
    if _T is None:
        _T = small_trees()
    d1, T = _T
    k = u["kind"]
    if k == "ex":
        a = T[u["i"]]
        for b in T:
            check_pair(a, b, acc, "exhaustive")
    elif k == "d1":
        for a in d1:
            for b in d1:
                check_pair(a, b, acc, "exhaustive-depth1")
        acc.sample({"prev": d1[5], "curr": d1[9]})
    elif k == "sample":
        rng = random.Random(u["seed"])
        for _ in range(u["n"]):
            check_pair(rng.choice(T), rng.choice(T), acc, "sampled")
    elif k == "random":
        rng = random.Random(u["seed"])
        for j in range(u["n"]):
            a = rand_tree(rng, 5, [40])
            b = edit_tree(rng, a) if rng.random() < 0.8 else rand_tree(rng, 5, [40])
            check_pair(a, b, acc, "random")
            if j == 0 and u["seed"] % 5 == 0:
                acc.sample({"prev": a, "curr": b})
    else:
        rng = random.Random(u["seed"])
        for _ in range(u["n"]):
            d = acc.newdir("c18")
            try:
                real_case(rng, acc, d)
            finally:
                acc.rmdir(d)


def inconclusive(cov):
    c = cov["counters"]
    return [f"monitor counter {k} is zero" for k in ("pairs_checked", "nodes_checked", "annotate_checks") if not c.get(k)]


def replay(case, acc):
    if "prev" in case:
        check_pair(case["prev"], case["curr"], acc, "replay")
    else:
        run_unit({"kind": "real", "seed": 0, "n": 50}, acc)
