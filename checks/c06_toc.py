"""C06 — TOC and attached metadata in one-to-one sync: TOC oracle after every call + reopen comparison."""
from vlib import contcheck as CC

PROPERTY = "C06"
LEVEL = "exploration"
RULE = (
    "state-guided random container histories (attach/delete metadata of installed schemas and harness families incl. "
    "parents+children at one node and several versions, create/delete/copy (with/without metadata and attributes, paths "
    "and node objects)/move of datasets and groups, deliberately failing calls, kept metadata handles, IH5 patch "
    "boundaries, reopen) on h5py.File, IH5Record and IH5MFRecord drivers. After EVERY call (ok or raised) an independent "
    "scan of the raw container recomputes objects/links/schema and package records and checks the TOC conditions; at "
    "reopen points the public TOC view before close is compared with the freshly loaded one. non-trivial = >=2 "
    "successful attachments and >=1 structural operation (copy/move/delete); distinct = hash of the op list."
)
ANCHORS = ["src/metador_core/container/interface.py", "src/metador_core/container/wrappers.py", "src/metador_core/container/utils.py"]
ASSUMPTIONS = ["moving a node into its own subtree is excluded (as the property states); single-handle discipline for kept MetadorMeta handles"]
WORKERS = {"quick": 14, "thorough": 16}
MON = {"toc", "reopen"}


def units(tier, seed):
    # (first unit: the repository's own tests as one more workload under the TOC oracle)
    from vlib.matrix import matrix_histories
    nm = len(matrix_histories())
    idx = list(range(nm)) if tier == "thorough" else [i for i in range(nm) if (i + seed) % 3 == 0]
    mat = [{"kind": "matrix", "idx": idx[i:i + 6], "driver": drv} for drv in ("h5", "ih5") for i in range(0, len(idx), 6)]
    return [{"kind": "pytest"}] + mat + CC.make_units(tier, seed, 700, 11000)


def run_unit(u, acc):
    if u.get("kind") == "pytest":
        from vlib import pytest_workload
        return pytest_workload.run(acc, "toc", "upstream-suite")
    if u.get("kind") == "matrix":
        from vlib.matrix import matrix_histories
        hs = matrix_histories()
        for i in u["idx"]:
            acc.count("matrix_histories")
            CC.check_case(acc, {"driver": u["driver"], "seed": 0, "ops": hs[i]}, MON)
        return
    CC.run_units(u, acc, MON)


def inconclusive(cov):
    c = cov["counters"]
    return [f"monitor counter {k} is zero" for k in ("toc_scans.after_ok", "toc_scans.after_fail", "reopen_comparisons") if not c.get(k)]


def replay(case, acc):
    if case.get("kind") == "pytest":
        from vlib import pytest_workload
        return pytest_workload.run(acc, "toc", "upstream-suite")
    CC.check_case(acc, case, MON)
