"""C10 — stubs: skeleton equality, no data, unmergeable, stub-made patch == direct update,
manifest on disk consistent after every commit, manifest extensions persist."""
from __future__ import annotations

import gc
import hashlib
import json
import random
import shutil
from pathlib import Path

import h5py

from vlib import h5eng as E
from vlib import receng as RE
from vlib.opgen import DataGen

PROPERTY = "C10"
LEVEL = "exploration"
RULE = (
    "real IH5MFRecords with 1-5 containers from random histories (manifest_exts given at some commits, omitted at "
    "others); after EVERY commit the sidecar is checked against the on-disk user block (sha256, uuid), against the "
    "in-memory user blocks (also after refused commits that carry extensions: unknown option / no open patch; and after a session that ended without commit and was resumed), against the "
    "harness's own skeleton of the committed state (paths, kinds, attribute names, dataset patch_index computed by a raw "
    "per-container scan) and against the last given extensions. Then a stub is created from the newest manifest, "
    "compared (skeleton, all values Empty, merge refused), and an existence-based update history (create at fresh "
    "paths, delete existing nodes/attributes, set attributes, recreate deleted paths, require_group) is applied in "
    "lock-step on a patch over the stub and directly on a copy of the real record; the stub's patch is then placed next "
    "to the real files and the set must open and equal the direct update (tree and manifest extensions). non-trivial = real record has >=2 containers "
    "and the update history has >=1 successful deletion and >=1 successful creation; distinct = hash of both histories."
)
ANCHORS = ["src/metador_core/ih5/manifest.py", "src/metador_core/ih5/skeleton.py"]
ASSUMPTIONS = ["group patch_index in the skeleton is not asserted (lower-bound semantics, not observable through the API)"]
WORKERS = {"quick": 12, "thorough": 16}


def skeleton_of(root):
    """Harness's own skeleton: path -> (kind, sorted attribute names)."""
    out = {"/": ("group", sorted(root.attrs.keys()))}
    def f(name, n):
        out["/" + name] = ("dataset" if E.is_ds(n) else "group", sorted(n.attrs.keys()))
    root.visititems(f)
    return out


def raw_dataset_index(files, path):
    """Newest container in which `path` is a real (non-marker) dataset: independent raw scan."""
    best = None
    for i, fp in enumerate(files):
        with h5py.File(fp, "r") as hf:
            if path in hf and isinstance(hf[path], h5py.Dataset):
                v = hf[path][()]
                import numpy as np
                if isinstance(v, np.void) and v.tobytes() == b"\x7f":
                    best = None
                else:
                    best = i
            elif path in hf and isinstance(hf[path], h5py.Group) and "\x1a" in hf[path].attrs:
                best = None
    return best


def check_manifest(rec, exts_expected, acc):
    """After a commit: sidecar vs on-disk user block vs harness skeleton."""
    files = [Path(p) for p in rec.ih5_files]
    newest = files[-1]
    sc = RE.sidecar(newest)
    if not sc.exists():
        return "manifest-missing", f"no sidecar {sc.name} after commit"
    raw = sc.read_bytes()
    ub = RE.disk_ublock(newest)
    ext = ub.get("ub_exts", {}).get("ih5mf_v01")
    if ext is None:
        return "manifest-unlinked", "committed container carries no manifest extension"
    if ext["manifest_hashsum"] != "sha256:" + hashlib.sha256(raw).hexdigest():
        return "manifest-hash", "sidecar bytes do not match the hash recorded in the container"
    mf = json.loads(raw)
    if mf["manifest_uuid"] != ext["manifest_uuid"]:
        return "manifest-uuid", "sidecar uuid differs from the uuid recorded in the container"
    if ext.get("is_stub_container"):
        return "manifest-stubflag", "a real container is flagged as stub"
    for fld in ("record_uuid", "patch_index", "patch_uuid", "prev_patch"):  # the payload hash is computed after the manifest
        if mf["user_block"].get(fld) != ub.get(fld):
            return "manifest-userblock", f"user_block.{fld} in sidecar {mf['user_block'].get(fld)} != container {ub.get(fld)}"
    skel = skeleton_of(rec)
    ms = mf["skeleton"]
    if set(ms) != set(skel):
        return "manifest-skeleton", f"paths differ: only in sidecar {sorted(set(ms) - set(skel))[:3]}, only in record {sorted(set(skel) - set(ms))[:3]}"
    idx_of = {RE.disk_ublock(f)["patch_index"]: i for i, f in enumerate(files)}
    for p, (kind, attrs) in skel.items():
        if ms[p]["node_type"] != kind:
            return "manifest-skeleton", f"{p}: sidecar says {ms[p]['node_type']}, record has {kind}"
        if sorted(ms[p]["attrs"]) != attrs:
            return "manifest-skeleton", f"{p}: attribute names {sorted(ms[p]['attrs'])} vs {attrs}"
        if kind == "dataset":
            want = raw_dataset_index(files, p)
            got = idx_of.get(ms[p]["patch_index"])
            if want is not None and got != want:
                return "manifest-skeleton-index", f"{p}: sidecar patch_index -> container {got}, data lives in container {want}"
    if mf["manifest_exts"] != (exts_expected or {}):
        return "manifest-exts", f"manifest_exts {mf['manifest_exts']} != last given {exts_expected or {}}"
    if rec.manifest.manifest_exts != (exts_expected or {}):
        return "manifest-exts", "in-memory manifest_exts differ from last given"
    acc.count("manifest_checks")
    return None


def gen_update(rng, view, n):
    """Existence-based update ops, guided by the real view."""
    nodes = [p for p in view if p != "/"]
    groups = [p for p, v in view.items() if v[0] == "G"]
    deleted, ops = [], []
    for i in range(n):
        k = rng.choice(["create", "create", "mkgrp", "del", "del", "sattr", "dattr", "recreate", "rgrp"])
        if k == "create":
            g = rng.choice(groups).rstrip("/")
            ops.append(["set", f"{g}/u{i}" + ("/v" if rng.random() < 0.3 else ""), E.token(rng, 500 + i)])
        elif k == "mkgrp":
            ops.append(["grp", f"{rng.choice(groups).rstrip('/')}/ug{i}"])
        elif k == "del" and nodes:
            p = rng.choice(nodes)
            ops.append(["del", p])
            deleted.append(p)
        elif k == "sattr":
            ops.append(["sattr", rng.choice(nodes + ["/"]), f"ua{i}", E.token(rng, 600 + i)])
        elif k == "dattr":
            cands = [(p, a) for p, v in view.items() for a in v[1]]
            if cands:
                p, a = rng.choice(cands)
                ops.append(["dattr", p, a])
        elif k == "recreate" and deleted:
            p = rng.choice(deleted)
            ops.append(rng.choice([["set", p, E.token(rng, 700 + i)], ["grp", p], ["set", p + "/deep", ["int", i]]]))
        elif k == "rgrp":
            ops.append(["rgrp", rng.choice(groups + [f"/rg{i}/x"])])
    return ops


def one(rng, acc, d, record=True):
    cls = RE.IH5MFRecord
    d = Path(d)
    for s in ("real", "stub", "direct", "joined"):
        (d / s).mkdir()
    # ---- build the real record, checking the manifest after every commit
    ncont = rng.randint(1, 5)
    rec = cls(d / "real" / "rec", "w")
    gen = DataGen(rng, boundaries=False, allow_self_copy=False)
    log, exts = [], None
    rec["seed/x"] = 1
    rec["seed"].attrs["sa"] = 2
    for c in range(ncont):
        RE.fill(rec, gen, rng.randint(1, 7), log)
        kw = {}
        r = rng.random()
        if r < 0.4:
            exts = {"note": f"n{c}", "k": [c, rng.randint(0, 9)]}
            kw["manifest_exts"] = exts
        elif r < 0.5:
            exts = {}
            kw["manifest_exts"] = {}
        if c > 0 and rng.random() < 0.25:
            # the session ends without committing (what a killed process leaves behind: the patch container without payload hash)
            # and a new session resumes the interrupted patch: extensions of the last commit still hold until overridden
            rec.close(commit=False)
            rec = cls(d / "real" / "rec", rng.choice(["r+", "a"]))
            acc.count("interrupted_sessions_resumed")
            log.append(["interrupted-session-resumed"])
            if not rec._has_writable:
                return "resume-failed", "reopening a record with an uncommitted newest container in r+/a did not resume the patch"
        if rng.random() < 0.25:
            # a refused commit (unknown option) that carries extensions: nothing of it may stick
            try:
                rec.commit_patch(manifest_exts={"refused": c}, no_such_option=True)
                return "refused-commit-accepted", "commit_patch with an unknown option returned"
            except Exception:
                acc.count("refused_commits")
                log.append(["refused-commit", "patch open"])
        passed = None
        if "manifest_exts" in kw:
            import copy as _copy
            passed = _copy.deepcopy(kw["manifest_exts"])  # the caller's own object is handed over ...
            kw["manifest_exts"] = passed
        rec.commit_patch(**kw)
        if passed is not None:
            passed["changed-by-caller-after-commit"] = c  # ... and the caller goes on using it: not the record's business
            if passed.get("k"):
                passed["k"].append("later")
            acc.count("exts_objects_mutated_after_commit")
        log.append(["commit", kw.get("manifest_exts", "inherit")])
        bad = check_manifest(rec, exts, acc)
        if bad:
            return bad
        if rng.random() < 0.3:
            # a refused commit (no patch open) that carries extensions: the committed state, on disk and as seen through
            # the open record, stays what it was
            mf_before = rec.manifest.json()
            try:
                rec.commit_patch(manifest_exts={"refused": c})
                return "refused-commit-accepted", "commit_patch without an open patch returned"
            except Exception:
                acc.count("refused_commits")
                log.append(["refused-commit", "no patch"])
            bad = check_manifest(rec, exts, acc)
            if bad:
                return ("after-refused-commit:" + bad[0], bad[1])
            if rec.manifest.json() != mf_before:
                return "after-refused-commit:manifest-object", "record.manifest changed by a refused commit"
            for i, (u, f) in enumerate(zip(rec.ih5_meta, rec.ih5_files)):
                dk = RE.disk_ublock(f)
                if json.loads(u.json()).get("ub_exts") != dk.get("ub_exts"):
                    return "after-refused-commit:meta-vs-disk", (f"ih5_meta[{i}] links manifest {json.loads(u.json())['ub_exts'].get('ih5mf_v01', {}).get('manifest_uuid')}, "
                                                                  f"the container on disk links {dk['ub_exts'].get('ih5mf_v01', {}).get('manifest_uuid')}")
        reopened = False
        if rng.random() < 0.3:  # extensions must also survive close/reopen
            rec.close()
            rec = cls(d / "real" / "rec", "r")
            if rec.manifest.manifest_exts != (exts or {}):
                return "manifest-exts", "manifest_exts lost by close/reopen"
            if c < ncont - 1:
                rec.close()
                rec = cls(d / "real" / "rec", "r+")  # starts the next patch
                reopened = True
        if c < ncont - 1 and not reopened:
            rec.create_patch()
    real_view = E.dump_walk(rec)
    real_skel = skeleton_of(rec)
    real_files = [Path(p) for p in rec.ih5_files]
    rec.close()

    # ---- stub from the newest manifest
    stub = cls.create_stub(d / "stub" / "rec", RE.sidecar(real_files[-1]))
    try:
        if skeleton_of(stub) != real_skel:
            a, b = skeleton_of(stub), real_skel
            k = sorted(k for k in set(a) | set(b) if a.get(k) != b.get(k))[0]
            return "stub-skeleton", f"{k}: stub {a.get(k)} real {b.get(k)}"
        for p, v in E.dump_walk(stub).items():
            if v[0] == "D" and v[2][0] != "Empty":
                return "stub-data", f"stub yields data at {p}: {v[2]}"
            for a, av in v[1].items():
                if av[0] != "Empty":
                    return "stub-data", f"stub yields attribute value at {p}@{a}: {av}"
        try:
            stub.merge_files(d / "stub" / "merged")
            return "stub-merge", "merge of a stub accepted"
        except Exception:
            pass
        sm, rm = stub.ih5_meta[0], RE.disk_ublock(real_files[-1])
        if str(sm.record_uuid) != rm["record_uuid"] or str(sm.patch_uuid) != rm["patch_uuid"] or sm.patch_index != rm["patch_index"]:
            return "stub-identity", "stub does not carry the identity of the real record's newest container"
    finally:
        stub.close()
    acc.count("stubs_compared")

    # ---- update: via stub patch and directly, in lock-step
    for p in real_files:
        shutil.copy(p, d / "direct" / p.name)
        shutil.copy(p, d / "joined" / p.name)
        shutil.copy(RE.sidecar(p), RE.sidecar(d / "direct" / p.name))
        shutil.copy(RE.sidecar(p), RE.sidecar(d / "joined" / p.name))
    S, err = RE.try_open(cls, d / "stub" / "rec", "r+")
    if S is None:
        return "stub-unusable", f"the stub cannot be opened for patching: {type(err).__name__}: {str(err)[:120]}"
    D = cls(d / "direct" / "rec", "r+")
    ups = gen_update(rng, real_view, rng.randint(2, 12))
    ndel = ncre = 0
    try:
        for op in ups:
            res = []
            for f in (S, D):
                try:
                    E.apply_op(f, op)
                    res.append("ok")
                except Exception as e:
                    res.append("fail:" + type(e).__name__)
            acc.count(f"update.{op[0]}.{E.st(res[1])}") if record else None
            if E.st(res[0]) != E.st(res[1]):
                return "stub-status", f"update {op}: via stub {res[0]}, directly {res[1]}"
            if res[1] == "ok":
                ndel += op[0] in ("del", "dattr")
                ncre += op[0] in ("set", "grp")
        if skeleton_of(S) != skeleton_of(D):
            return "stub-update-skeleton", "skeleton after update differs between stub patch and direct update"
        try:
            S.merge_files(d / "stub" / "merged2")
            return "stub-merge", "merge of stub + patch accepted"
        except Exception:
            pass
        S.commit_patch()
        D.commit_patch()
        direct_view = E.dump_walk(D)
        direct_exts = D.manifest.manifest_exts
        pfile = Path(S.ih5_files[-1])
    finally:
        RE.safe_close(S)
        RE.safe_close(D)
    shutil.copy(pfile, d / "joined" / pfile.name)
    shutil.copy(RE.sidecar(pfile), RE.sidecar(d / "joined" / pfile.name))
    J, err = RE.try_open(cls, d / "joined" / "rec", "r")
    if J is None:
        return "stub-patch-rejected", f"patch made on the stub is not accepted by the real record: {err}"
    try:
        jv = E.dump_walk(J)
        if jv != direct_view:
            df = E.diff_dumps(jv, direct_view)
            return "stub-patch-view", f"real+stub-patch differs from direct update: {df[2] if df else ''}"
        if J.manifest.manifest_exts != direct_exts:
            return "stub-patch-exts", (f"manifest extensions of the real record after the stub-made patch are {J.manifest.manifest_exts}, "
                                       f"after the same update made directly {direct_exts} (nothing overrode them)")
        acc.count("stub_patch_exts_compared_nonempty") if direct_exts else None
        bad = check_manifest(J, J.manifest.manifest_exts, acc)  # manifest of the stub-made patch describes the joined record
        if bad and bad[0] not in ("manifest-skeleton-index",):
            return ("stub-" + bad[0], bad[1])
    finally:
        J.close()
    if record:
        acc.count("stub_patches_joined")
        acc.case([log, ups], nontrivial=ncont >= 2 and ndel >= 1 and ncre >= 1)
        if acc.evaluations % 40 == 1:
            acc.sample({"containers": ncont, "build": log[:10], "update": ups[:8]})
    return None


def run_one(params, acc):
    d = acc.newdir("c10")
    try:
        res = one(random.Random(params["seed"]), acc, d)
    finally:
        gc.collect()
        acc.rmdir(d, collect=True)
    if res:
        acc.violation(res[0], f"{res[1]} [seed {params['seed']}]", params)


def units(tier, seed):
    n = 720 if tier == "quick" else 12800
    return [{"seed": seed * 7001 + i, "n": 10} for i in range(0, n, 10)]


def run_unit(u, acc):
    for j in range(u["n"]):
        run_one({"seed": u["seed"] + j}, acc)


def inconclusive(cov):
    c = cov["counters"]
    return [f"monitor counter {k} is zero" for k in ("manifest_checks", "refused_commits", "exts_objects_mutated_after_commit", "interrupted_sessions_resumed", "stub_patch_exts_compared_nonempty", "stubs_compared", "stub_patches_joined") if not c.get(k)]


def replay(case, acc):
    run_one(case, acc)
