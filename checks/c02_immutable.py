"""C02 — committed containers (and sidecars) never change: file ledger after every API call."""
from __future__ import annotations

import gc
import itertools
import os
import random
import shutil
from pathlib import Path

from vlib import fsmon
from vlib import h5eng as E
from vlib import receng as RE
from vlib.opgen import DataGen
from vlib.shrink import shrink_list

PROPERTY = "C02"
LEVEL = "exploration"
RULE = (
    "histories of data operations and record-level calls (commit with/without manifest_exts, create/discard patch, "
    "merge into same/other directory, close(commit=True/False), reopen by name/list/permuted list in r, r+, a, full "
    "read-out, copy_into_patch, find_files/list_records, create_stub, deliberately failing calls, truncation/deletion of "
    "prefix-related NEIGHBOUR records) on IH5Record and IH5MFRecord; after EVERY call the (sha256,size,inode) ledger of all "
    "committed *.ih5 / *.ih5mf.json files is re-checked, and file sets as they existed at earlier commits are reopened in "
    "place and must show the view recorded at that commit. non-trivial = at least one commit followed by >=3 further "
    "calls of which one is a successful write or record-level call; distinct = hash of the executed call list."
)
ANCHORS = ["src/metador_core/ih5/record.py", "src/metador_core/ih5/overlay.py", "src/metador_core/ih5/manifest.py"]
ASSUMPTIONS = [
    "explicitly truncating calls (mode 'w', delete_files) are issued only on neighbour records, never on the monitored one",
    "the ledger reads files through the OS; bytes still buffered inside HDF5 become visible at the latest at close, which every history ends with",
]
WORKERS = {"quick": 12, "thorough": 16}

NEIGH = ["rec2", "rec-x", "re", "recp1"]

REC_OPS = ["with_exc", "commit", "commit", "commit_exts", "create_patch", "discard", "reopen", "reopen", "merge_other",
           "merge_same", "readall", "find", "list", "neigh_w", "neigh_del", "open_x", "copy_into_patch",
           "verify_old", "stub", "close_nocommit", "write_fail", "prefix_rw", "stale_handle"]


def gen_history(rng, n):
    """Abstract plan; data ops are concretised online (guided by the record's view)."""
    plan = []
    for _ in range(n):
        if rng.random() < 0.55:
            plan.append(["data", rng.randint(1, 4)])
        else:
            k = rng.choice(REC_OPS)
            if k == "reopen":
                plan.append(["reopen", rng.choice([True, True, False]), rng.choice(["r", "r+", "a"]),
                             rng.choice(["name", "list", "perm", "mf"])])
            elif k in ("neigh_w", "neigh_del"):
                plan.append([k, rng.choice(NEIGH)])
            elif k == "commit_exts":
                plan.append(["commit", {"x": rng.randint(0, 9)}])
            elif k == "commit":
                plan.append(["commit", None])
            else:
                plan.append([k])
    return plan


class Run:
    def __init__(self, acc, d, clsname, seed, record=True):
        self.acc, self.d, self.cls, self.record = acc, Path(d), RE.CLS[clsname], record
        self.clsname = clsname
        self.rng = random.Random(seed)
        self.gen = DataGen(self.rng, boundaries=False, allow_self_copy=False)
        self.ledger = fsmon.Ledger()
        self.rec = self.cls(self.d / "rec", "w")
        self.commits = []  # {"files": [...], "dump": ...}
        self.calls = []
        self.after_commit_calls = 0
        self.effective_after_commit = 0
        self.mergectr = 0
        (self.d / "other").mkdir(exist_ok=True)

    # -- ledger maintenance: everything that carries a payload hash is committed
    def note_committed(self):
        rec = self.rec
        if rec is None or rec._closed:
            return
        for p in rec.ih5_files:
            # committed = the user block ON DISK carries a payload hash (the in-memory copy is not trusted)
            if RE.is_committed_on_disk(p):
                self.ledger.add(p)
                if RE.sidecar(p).exists():
                    self.ledger.add(RE.sidecar(p))

    def check_ledger(self, call):
        bad = self.ledger.check()
        if bad:
            p, what = bad[0]
            return {"kind": "ledger", "call": call, "detail": f"{Path(p).name}: {what} after {call}"}
        fsmon.audit_watch(self.ledger.entries)
        return None

    def step(self, item):
        """Execute one plan item; returns (call description, status)."""
        rec, rng = self.rec, self.rng
        k = item[0]
        try:
            if k == "data":
                log = []
                RE.fill(rec, self.gen, item[1], log)
                return ["data", log], ("ok" if any(l[-1] == "ok" for l in log) else "fail")
            if k == "write_fail":  # write although (maybe) no patch is open
                rec[f"wf{len(self.calls)}"] = 1
            elif k == "commit":
                kw = {"manifest_exts": item[1]} if item[1] is not None and self.cls is RE.IH5MFRecord else {}
                rec.commit_patch(**kw)
                self.commits.append({"files": [str(p) for p in rec.ih5_files], "dump": E.dump_walk(rec)})
            elif k == "create_patch":
                rec.create_patch()
            elif k == "discard":
                rec.discard_patch()
            elif k == "close_nocommit":
                files = list(rec.ih5_files)
                rec.close(commit=False)
                self.rec = self.cls(files, "r+")
            elif k == "reopen":
                _, commit, mode, by = item
                files = list(rec.ih5_files)
                had_w = rec._has_writable
                rec.close(commit=commit)
                if commit and had_w:
                    ro = self.cls(files, "r")
                    self.commits.append({"files": [str(p) for p in files], "dump": E.dump_walk(ro)})
                    ro.close()
                kw = {}
                if by == "name":
                    what = self.d / "rec"
                else:
                    what = list(files)
                    if by == "perm":
                        rng.shuffle(what)
                    if by == "mf" and self.cls is RE.IH5MFRecord and RE.sidecar(files[-1]).exists():
                        # the manifest handed over explicitly (as in the stub workflow): here simply the canonical sidecar
                        kw["manifest_file"] = RE.sidecar(files[-1])
                        self.acc.count("reopens_with_explicit_manifest") if self.record else None
                self.rec = self.cls(what, mode, **kw)
            elif k in ("merge_other", "merge_same"):
                self.mergectr += 1
                name = f"m{self.mergectr if rng.random() < 0.8 else 1}"
                tgt = (self.d / "other" / name) if k == "merge_other" else (self.d / name)
                out = rec.merge_files(tgt)
                self.ledger.add(out)
                if RE.sidecar(out).exists():
                    self.ledger.add(RE.sidecar(out))
            elif k == "readall":
                E.full_dump(rec)
            elif k == "find":
                self.cls.find_files(self.d / "rec")
            elif k == "list":
                self.cls.list_records(self.d)
            elif k == "neigh_w":
                for p in self.cls.find_files(self.d / item[1]):  # explicit truncation of the NEIGHBOUR
                    self.ledger.forget(p)
                    self.ledger.forget(RE.sidecar(p))
                n = self.cls(self.d / item[1], "w")
                n["n"] = 1
                n.close()
                if rng.random() < 0.5:
                    n = self.cls(self.d / item[1], "r+")
                    n["m"] = 2
                    n.close()
                for p in self.cls.find_files(self.d / item[1]):
                    self.ledger.add(p)
                    if RE.sidecar(p).exists():
                        self.ledger.add(RE.sidecar(p))
            elif k == "neigh_del":
                for p in self.cls.find_files(self.d / item[1]):
                    self.ledger.forget(p)
                    self.ledger.forget(RE.sidecar(p))
                self.cls.delete_files(self.d / item[1])
            elif k == "open_x":
                self.cls(self.d / "rec", rng.choice(["x", "w-"]))
            elif k == "copy_into_patch":
                ds = [p for p, v in E.dump_walk(rec).items() if v[0] == "D"]
                if not ds:
                    return [k], "skip"
                rec[rng.choice(ds)].copy_into_patch()
            elif k == "verify_old":
                return [k], self.verify_old()
            elif k == "prefix_rw":
                # open a strict PREFIX of the chain for patching: the next patch file already exists (committed)
                files = [p for p in rec.ih5_files if RE.is_committed_on_disk(p)]
                if len(files) < 2:
                    return [k], "skip"
                n = rng.randint(1, len(files) - 1)
                other = None
                try:
                    other = self.cls(files[:n], rng.choice(["r+", "a"]))
                finally:
                    RE.safe_close(other, commit=False)
                    gc.collect()
            elif k == "stale_handle":
                # a second object patches and commits the record while this one stays open; then this one patches
                if rec._has_writable:
                    rec.commit_patch()
                    self.commits.append({"files": [str(p) for p in rec.ih5_files], "dump": E.dump_walk(rec)})
                files = list(rec.ih5_files)
                B = self.cls(files, "r+")
                B[f"stale{len(self.calls)}"] = 1
                B.close()
                for p in B.__dict__.get("_ublocks", {}):
                    pass
                newf = sorted(set(self.cls.find_files(self.d / "rec")) - set(files))
                for p in newf:
                    self.ledger.add(p)
                    if RE.sidecar(p).exists():
                        self.ledger.add(RE.sidecar(p))
                try:
                    rec.create_patch()  # stale view: the file of "its" next patch exists and is committed
                    rec["written-through-stale-handle"] = 1
                finally:
                    # get a consistent object again for the rest of the history
                    RE.safe_close(self.rec, commit=False)
                    gc.collect()
                    self.rec = self.cls(self.d / "rec", "r+")
            elif k == "with_exc":
                # the record used as context manager, the block left by an exception while NO patch is open
                files = list(rec.ih5_files)
                had_w = rec._has_writable
                rec.close()
                if had_w and RE.is_committed_on_disk(files[-1]):
                    ro = self.cls(files, "r")
                    self.commits.append({"files": [str(p) for p in files], "dump": E.dump_walk(ro)})
                    ro.close()
                for p in files:
                    if RE.is_committed_on_disk(p):
                        self.ledger.add(p)
                        if RE.sidecar(p).exists():
                            self.ledger.add(RE.sidecar(p))
                self.rec = None
                variant = rng.choice(["r-keyerror", "r+-commit-then-refused-write", "r-refused-write"])
                try:
                    with self.cls(self.d / "rec", "r" if variant.startswith("r-") else "r+") as r:
                        if variant == "r-keyerror":
                            r["no/such/node"]
                        elif variant == "r-refused-write":
                            r["zz-refused"] = 1
                        else:
                            r["within-with-block"] = len(self.calls)
                            r.commit_patch()
                            for p in r.ih5_files:
                                self.ledger.add(p)
                                if RE.sidecar(p).exists():
                                    self.ledger.add(RE.sidecar(p))
                            r["zz-refused-after-commit"] = 1
                    raise AssertionError("the block should have been left by an exception")
                except (KeyError, ValueError):
                    pass
                finally:
                    gc.collect()
                    self.rec = self.cls(self.d / "rec", "r+")
            elif k == "stub":
                if self.cls is not RE.IH5MFRecord:
                    return [k], "skip"
                self.mergectr += 1
                mf = RE.sidecar(rec.ih5_files[-1] if RE.is_committed_on_disk(rec.ih5_files[-1]) else rec.ih5_files[-2])
                # (sometimes onto the name of the record itself or of an earlier merge result: must be refused without effect)
                r = rng.random()
                tgt = self.d / "rec" if r < 0.2 else self.d / "other" / "m1" if r < 0.35 else self.d / "other" / f"stub{self.mergectr}"
                s = RE.IH5MFRecord.create_stub(tgt, mf)
                for p in s.ih5_files:
                    self.ledger.add(p)
                    if RE.sidecar(p).exists():
                        self.ledger.add(RE.sidecar(p))
                s.close()
            return item, "ok"
        except Exception as e:
            gc.collect()
            if self.rec is None or self.rec._closed:  # a failed reopen: get the record back
                self.rec = self.cls(self.d / "rec", "r+")
            return item, "fail:" + type(e).__name__

    def verify_old(self):
        if not self.commits:
            return "skip"
        c = self.rng.choice(self.commits)
        self.acc.count("old_sets_reopened") if self.record else None
        r, err = RE.try_open(self.cls, [Path(p) for p in c["files"]], "r")
        if r is None:
            return f"BAD:file set of an earlier commit no longer opens: {type(err).__name__}: {str(err)[:100]}"
        try:
            d = E.dump_walk(r)
        finally:
            r.close()
        if d != c["dump"]:
            df = E.diff_dumps(d, c["dump"])
            return f"BAD:file set of an earlier commit shows a different state: {df[2] if df else ''}"
        return "ok"

    def run(self, plan):
        fsmon.audit_install()
        mm = None
        for item in plan:
            call, status = self.step(item)
            self.calls.append([call, status])
            if self.record:
                self.acc.count(f"calls.{item[0]}.{status.split(':')[0]}")
            if status.startswith("BAD:"):
                mm = {"kind": "old-state", "call": item, "detail": status[4:]}
                break
            if self.commits:
                self.after_commit_calls += 1
                if status == "ok" and item[0] not in ("readall", "find", "list", "verify_old"):
                    self.effective_after_commit += 1
            mm = self.check_ledger(item)
            if mm:
                break
            self.note_committed()
        if mm is None:
            # close (commits a pending patch) and check once more, incl. all old file sets
            try:
                files = list(self.rec.ih5_files)
                had_w = self.rec._has_writable
                self.rec.close()
                if had_w:
                    ro = self.cls(files, "r")
                    self.commits.append({"files": [str(p) for p in files], "dump": E.dump_walk(ro)})
                    ro.close()
            except Exception as e:
                mm = {"kind": "close-failed", "call": ["close"], "detail": f"{type(e).__name__}: {e}"}
            mm = mm or self.check_ledger(["close"])
            if mm is None:
                for c in self.commits[-4:]:
                    self.commits = [c]
                    s = self.verify_old()
                    if s.startswith("BAD:"):
                        mm = {"kind": "old-state", "call": ["final verify"], "detail": s[4:]}
                        break
        else:
            RE.safe_close(self.rec, commit=False)
        if self.record:
            self.acc.count("ledger_comparisons", self.ledger.comparisons)
            self.acc.count("python_level_write_opens_of_committed_files", len(fsmon.audit_drain()))
            self.acc.count(f"files_per_record.{min(len(self.ledger.entries), 12)}")
        gc.collect()
        return mm


def run_case(case, acc, record=True):
    d = acc.newdir("c2")
    try:
        r = Run(acc, d, case["cls"], case["seed"], record)
        mm = r.run(case["plan"])
        if record and mm is None:
            acc.case([case["cls"], r.calls], nontrivial=r.after_commit_calls >= 3 and r.effective_after_commit >= 1)
            if acc.evaluations % 150 == 1:
                acc.sample({"cls": case["cls"], "calls": r.calls[:14]})
        return mm
    finally:
        acc.rmdir(d, collect=True)


def check_case(case, acc):
    mm = run_case(case, acc)
    if mm is None:
        return
    pre = f"{mm['kind']}:{mm['call'][0]}"
    acc.count("mismatch." + pre)
    if acc.counters["mismatch." + pre] > 2:
        return
    kind = mm["kind"]

    def fails(plan):
        m = run_case({**case, "plan": plan}, acc, record=False)
        return m is not None and m["kind"] == kind

    small = shrink_list(case["plan"], fails, max_trials=80)
    m2 = run_case({**case, "plan": small}, acc, record=False) or mm
    acc.violation(f"{m2['kind']}:{m2['call'][0]}:{case['cls']}",
                  f"{m2['detail']} ({case['cls']}, plan shrunk to {small})",
                  {**case, "plan": small})


def units(tier, seed):
    n, per = (1440, 20) if tier == "quick" else (18000, 150)
    us = []
    for i in range(n // per):
        us.append({"seed": seed * 7919 + i, "n": per, "cls": "IH5Record" if i % 2 == 0 else "IH5MFRecord"})
    us.insert(0, {"kind": "pytest"})  # the repository's own tests as one more workload under the ledger
    return us


def run_unit(u, acc):
    if u.get("kind") == "pytest":
        from vlib import pytest_workload
        return pytest_workload.run(acc, "ledger", "upstream-suite")
    rng = random.Random(u["seed"])
    for j in range(u["n"]):
        plan = gen_history(rng, rng.randint(6, 30))
        check_case({"cls": u["cls"], "seed": u["seed"] * 1000 + j, "plan": plan}, acc)


def inconclusive(cov):
    c = cov["counters"]
    r = []
    if c.get("ledger_comparisons", 0) == 0:
        r.append("ledger never compared anything")
    if c.get("old_sets_reopened", 0) == 0:
        r.append("no earlier file set was reopened")
    return r


def replay(case, acc):
    if case.get("kind") == "pytest":
        from vlib import pytest_workload
        return pytest_workload.run(acc, "ledger", "upstream-suite")
    check_case(case, acc)
