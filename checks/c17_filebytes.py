"""C17 — embedded file bytes and file metadata are exact, through both drivers and later histories."""
from __future__ import annotations

import gc
import hashlib
import random
from pathlib import Path

import h5py
import numpy as np

from vlib import conteng as CE
from vlib import families as F
from vlib import h5eng as E
from vlib import tocoracle

PROPERTY = "C17"
LEVEL = "exploration"
RULE = (
    "pack_file on the h5py, IH5 and IH5MF drivers with byte strings of lengths 0,1,2,63,64,65,4095-4097,65535-65537,"
    "~1MB and contents all-NUL, leading/trailing NULs, every single byte value, the marker byte 0x7f alone and with "
    "neighbours, 0x1a, high bytes, valid/invalid UTF-8, CR/LF text, random; then container histories that keep the node "
    "(patch boundaries, copy, move, copy of the parent group, deletion of the original, reopen, merge of the IH5 "
    "record); after EVERY stage every surviving copy is read back: bytes == source, contentSize == length, sha256 == "
    "hashlib digest, filename kept; from the h5py driver the file is also copied as a dataset into IH5 records (container and raw "
    "interface) and read back after commit and reopen; pack_file is also called with caller-supplied metadata (harvested from the file itself, "
    "and a stale description harvested from a shorter/longer earlier state): the embedded bytes are the file's bytes. For b'\\x7f' on IH5 (pack_file and cross-container copy): must raise and leave the raw tree unchanged; on h5py it is an "
    "ordinary value. non-trivial = content with NUL/high/marker bytes or boundary length; distinct = (driver, bytes hash, history)."
)
ANCHORS = ["src/metador_core/packer/utils.py", "src/metador_core/harvester/common.py", "src/metador_core/ih5/overlay.py"]
ASSUMPTIONS = ["Empty datasets read back as b''"]
WORKERS = {"quick": 14, "thorough": 16}
LENGTHS = [0, 1, 2, 63, 64, 65, 4095, 4096, 4097, 65535, 65536, 65537]


def corpus(rng, tier):
    out = [b"", b"\x00", b"\x00\x00", b"\x7f", b"\x7f\x7f", b"a\x7f", b"\x7fa", b"\x7f\x00", b"\x00\x7f", b"\x1a", b"x\x00", b"\x00x",
           b"abc\x00\x00\x00", b"\x00\x00\x00abc", "häßlich ünïcödé".encode(), b"\xff\xfe\xfd", b"\xc3\x28", b"line1\r\nline2\n", b"\r", b" "]
    out += [bytes([b]) for b in range(256)] if tier == "thorough" else [bytes([rng.randrange(256)]) for _ in range(6)]
    for n in LENGTHS:
        out.append(b"\x00" * n)
        out.append(rng.randbytes(n))
        if n:
            out.append(rng.randbytes(n - 1) + b"\x00")
    out.append(rng.randbytes(1_000_003))
    return out


def read_bytes(node):
    v = node[()]
    if isinstance(v, h5py.Empty):
        return b""
    if isinstance(v, np.void):
        return v.tobytes()
    return bytes(np.asarray(v).tobytes())


def check_node(mc, path, data, fname, with_meta=True):
    if path not in mc:
        return "lost", f"{path} vanished"
    node = mc[path]
    got = read_bytes(node)
    if got != data:
        return "bytes", f"{path}: read back {len(got)} bytes {got[:12]!r}..., embedded {len(data)} bytes {data[:12]!r}..."
    if with_meta:
        m = node.meta.get("core.file")
        if m is None:
            return "meta-missing", f"{path}: no core.file metadata"
        if m.contentSize != len(data):
            return "meta-size", f"{path}: contentSize {m.contentSize} != {len(data)}"
        if hashlib.sha256(data).hexdigest() not in str(m.sha256):
            return "meta-sha256", f"{path}: sha256 {m.sha256} != digest of the bytes"
        if m.filename != fname:
            return "meta-filename", f"{path}: filename {m.filename!r} != {fname!r}"
    return None


def one(acc, d, driver, data, hist, idx):
    from metador_core.packer.utils import pack_file
    F.register()
    d = Path(d)
    src = d / f"file{idx}.bin"
    src.write_bytes(data)
    if idx % 3 == 1:
        # the path handed to pack_file is a SYMLINK to the file (packer source directories may contain in-directory links)
        (d / "store dir").mkdir()
        real = d / "store dir" / f"blob.{idx}.data"
        src.rename(real)
        src.symlink_to(real)
        acc.count("symlinked_sources")
    sub = CE.Subject(d, driver)
    mc = sub.mc
    copies = {}
    try:
        mc.create_group("files")
        mc["other/x"] = 1
        if driver != "h5":
            sub.boundary("commit")
        marker = data == b"\x7f"
        before = tocoracle.raw_nodes(sub.raw) if marker else None
        try:
            node = pack_file(mc["files"], src, target="f")
            packed = True
        except Exception as e:
            packed = False
            err = e
        if marker and driver != "h5":
            acc.count("marker_cases")
            if packed:
                return "marker-stored", "the IH5 deletion marker value was stored silently"
            after = tocoracle.raw_nodes(sub.raw)
            if {k: str(v) for k, v in after.items()} != {k: str(v) for k, v in before.items()}:
                return "marker-effect", f"rejected marker value left traces: {sorted(set(after) ^ set(before))[:4]}"
            if "f" in mc["files"]:
                return "marker-effect", "rejected marker value left a visible node"
            # the marker as a whole-value assignment to an existing one-byte dataset
            mc["files"].create_dataset("mk", data=np.void(b"x"))
            try:
                mc["files/mk"][()] = np.void(b"\x7f")
                stored = True
            except Exception:
                stored = False
            acc.count("marker_cases")
            if stored or "mk" not in mc["files"] or read_bytes(mc["files/mk"]) != b"x":
                return "marker-stored", (f"assigning the deletion-marker value to an existing dataset (ds[()] = ...) {'returned silently' if stored else 'was refused'}; "
                                         f"the dataset is {'gone' if 'mk' not in mc['files'] else 'there'} afterwards")
            return None
        if not packed:
            return "pack-failed", f"pack_file raised {type(err).__name__}: {err}"
        copies["/files/f"] = True
        content = {}  # path -> bytes, where it differs from `data` (a file embedded later at a path used before)

        def verify(stage):
            for p, wm in copies.items():
                r = check_node(sub.mc, p, content.get(p, data), src.name, wm)
                acc.count("readbacks")
                if r:
                    return r[0], f"{r[1]} (stage {stage}, driver {driver}, history {hist})"
            sc = tocoracle.scan(sub.raw)
            if sc["errors"]:
                return "toc", f"TOC inconsistent at stage {stage}: {sc['errors'][0]}"
            return None

        r = verify("packed")
        if r:
            return r
        if driver == "h5":
            r = cross_copy(acc, d, sub, data)
            if r:
                return r
        if not marker and idx % 2 == 0:
            r = given_metadata(acc, d, sub, data, src, idx)
            if r:
                return r
        try:
            pack_file(sub.mc["files"], src, target="f")
            return "duplicate-target", "pack_file onto an existing target accepted"
        except ValueError:
            pass
        steps = {
            "H1": [("commit",), ("copy", "files/f", "files/c1"), ("commit",), ("move", "files/c1", "moved/m"), ("reopen",), ("copy-nometa", "moved/m", "n")],
            "H2": [("copy", "files", "g2"), ("commit",), ("del", "files"), ("reopen",), ("merge",)],
            # the embedded file is deleted and ANOTHER file embedded at the same path in a later patch, then touched by attributes
            "H4": [("commit",), ("replace", "files/f"), ("attr", "files/f"), ("commit",), ("attr", "files/f"), ("copy", "files/f", "files/c4"), ("reopen",), ("merge",)],
            "H3": [("move", "files/f", "files/f2"), ("commit",), ("copyobj", "files/f2", "other", "f3"), ("commit",), ("del", "files/f2"), ("commit",), ("reopen",), ("merge",)],
        }[hist]
        for st in steps:
            mc = sub.mc
            k = st[0]
            if k in ("commit", "reopen"):
                sub.boundary(k)
            elif k == "replace":
                del mc[st[1]]
                second = (data[::-1] + b"|second version").replace(b"\x7f", b"~") or b"2"
                src.unlink()
                src.write_bytes(second)
                pack_file(mc[st[1].rsplit("/", 1)[0]], src, target=st[1].rsplit("/", 1)[1])
                content["/" + st[1]] = second
                acc.count("files_replaced_at_same_path")
            elif k == "attr":
                mc[st[1]].attrs[f"note{len(mc[st[1]].attrs)}"] = "touched"
            elif k == "copy":
                mc.copy(st[1], st[2])
                for p in list(copies):
                    if E.is_sub("/" + st[1], p):
                        copies["/" + st[2] + p[len(st[1]) + 1:]] = copies[p]
                        if p in content:
                            content["/" + st[2] + p[len(st[1]) + 1:]] = content[p]
            elif k == "copy-nometa":
                mc.copy(st[1], st[2], without_meta=True)
                copies["/" + st[2]] = False
            elif k == "copyobj":
                mc.copy(mc[st[1]], mc[st[2]], name=st[3])
                copies[f"/{st[2]}/{st[3]}"] = copies["/" + st[1]]
            elif k == "move":
                mc.move(st[1], st[2])
                for p in list(copies):
                    if E.is_sub("/" + st[1], p):
                        copies["/" + st[2] + p[len(st[1]) + 1:]] = copies.pop(p)
            elif k == "del":
                del mc[st[1]]
                for p in list(copies):
                    if E.is_sub("/" + st[1], p):
                        del copies[p]
            elif k == "merge":
                if driver == "h5":
                    continue
                sub.raw.commit_patch()
                (d / "mrg").mkdir()
                out = sub.raw.merge_files(d / "mrg" / "m")
                sub.close()
                from metador_core.container import MetadorContainer
                sub.mc = MetadorContainer(CE.DRIVERS[driver](d / "mrg" / "m", "r"))
                acc.count("merged_records_read")
            r = verify(k)
            if r:
                return r
        acc.count("histories")
        return None
    finally:
        sub.close()
        gc.collect()


def given_metadata(acc, d, sub, data, src, idx):
    """pack_file with metadata handed over by the caller (documented: attached instead of the harvested defaults). Whatever the
    caller describes, the bytes embedded are the bytes of the file: (a) metadata harvested from this very file, (b) metadata
    harvested from an earlier, shorter/longer state of the file (a stale description)."""
    from metador_core.harvester import harvest
    from metador_core.packer.utils import FileMeta, pack_file
    from metador_core.plugins import harvesters
    hv = harvesters["core.file.generic"]
    fresh = harvest(FileMeta, [hv(filepath=src)])
    other = d / f"earlier{idx}.bin"
    other.write_bytes(data[: len(data) // 2] if len(data) > 1 else data + b"tail")
    stale = harvest(FileMeta, [hv(filepath=other)])
    for kind, md in (("fresh", fresh), ("stale", stale)):
        tgt = f"given_{kind}"
        acc.count("packed_with_given_metadata")
        try:
            pack_file(sub.mc["files"], src, target=tgt, metadata=md)
        except Exception as e:
            return "pack-failed", f"pack_file with caller-supplied ({kind}) metadata raised {type(e).__name__}: {e}"
        got = read_bytes(sub.mc["files"][tgt])
        acc.count("readbacks")
        if got != data:
            return "bytes", (f"pack_file(metadata=<{kind} description, contentSize {md.contentSize}>): embedded {len(got)} bytes {got[:12]!r}, "
                             f"the file has {len(data)} bytes {data[:12]!r}")
        m = sub.mc["files"][tgt].meta.get("core.file")
        if m is None or m.contentSize != md.contentSize or str(m.sha256) != str(md.sha256):
            return "given-metadata-not-attached", f"the metadata handed to pack_file ({kind}) is not what is attached"
        del sub.mc["files"][tgt]
    return None


def cross_copy(acc, d, sub, data):
    """The embedded file (held by an h5py-backed container, where every byte string is storable) is copied as a dataset
    into IH5-backed containers, through the container interface and through the raw record: bytes must survive commit and
    reopen; the deletion-marker content must be refused by both and leave the target record untouched."""
    from metador_core.container import MetadorContainer
    from metador_core.ih5.container import IH5Record
    (d / "x").mkdir()
    marker = data == b"\x7f"
    from metador_core.packer.utils import pack_file
    for via in ("container", "raw", "container-with-meta"):
        rec = IH5Record(d / "x" / f"t{via.replace('-', '')}", "w")
        try:
            tgt = MetadorContainer(rec)
            tgt["keep/k"] = 1
            if via == "container-with-meta" and not marker:
                # the target holds ANOTHER embedded file at the very path the source has in its own container
                decoy = d / "x" / "decoy.bin"
                decoy.write_bytes(b"decoy-content-of-other-length")
                tgt.create_group("files")
                pack_file(tgt["files"], decoy, target="f")
            rec.commit_patch()
            rec.create_patch()
            before = {k: str(v) for k, v in tocoracle.raw_nodes(rec).items()}
            acc.count("cross_container_copies")
            try:
                if via == "container":
                    tgt.copy(sub.mc["files/f"], "in", without_meta=True)
                elif via == "container-with-meta":
                    tgt.copy(sub.mc["files/f"], "in")
                else:
                    rec.copy(sub.raw["files/f"], "in")
                err = None
            except Exception as e:
                err = e
            if marker:
                acc.count("marker_cases")
                after = {k: str(v) for k, v in tocoracle.raw_nodes(rec).items()}
                if err is None:
                    return "marker-stored", f"copying the embedded file with the deletion-marker content from an HDF5 container into an IH5 record ({via}) returned silently; 'in' in record: {'in' in rec}"
                if after != before or "in" in rec:
                    return "marker-effect", f"refused cross-container copy ({via}) left traces: {sorted(set(after) ^ set(before))[:4]}"
                continue
            if err is not None:
                return "cross-copy-failed", f"copy of the embedded file into an IH5 record ({via}) raised {type(err).__name__}: {err}"
            if via == "container-with-meta":
                m = tgt["in"].meta.get("core.file")
                if m is None or m.contentSize != len(data) or hashlib.sha256(data).hexdigest() not in str(m.sha256):
                    return "meta-of-other-file", (f"embedded file copied with its metadata from another container: the copy holds {len(data)} bytes, its core.file metadata says "
                                                  f"{None if m is None else (m.contentSize, str(m.sha256)[:20])}")
            for stage in ("written", "committed", "reopened"):
                if stage == "committed":
                    rec.commit_patch()
                elif stage == "reopened":
                    rec.close()
                    rec = IH5Record(d / "x" / f"t{via.replace('-', '')}", "r")
                if "in" not in rec:
                    return "lost", f"cross-container copy ({via}) vanished at stage {stage}"
                got = read_bytes(rec["in"])
                acc.count("readbacks")
                if got != data:
                    return "bytes", f"cross-container copy ({via}) at stage {stage}: read back {len(got)} bytes {got[:12]!r}, embedded {len(data)} bytes {data[:12]!r}"
        finally:
            rec.close()
    return None


def units(tier, seed):
    rng = random.Random(seed)
    cor = corpus(rng, tier)
    us = []
    hists = ["H1", "H2", "H3", "H4"]
    for i, data in enumerate(cor):
        for drv in ("h5", "ih5", "ih5mf") if tier == "thorough" or i % 3 == 0 else ("h5", "ih5"):
            hs = hists if tier == "thorough" else [hists[(i + len(drv)) % 4]]
            for h in hs:
                us.append({"i": i, "driver": drv, "hist": h, "seed": seed})
    return us


_corpus = {}


def run_unit(u, acc):
    key = (u["seed"], acc.tier)
    if key not in _corpus:
        _corpus[key] = corpus(random.Random(u["seed"]), acc.tier)
    data = _corpus[key][u["i"]]
    d = acc.newdir("c17")
    try:
        r = one(acc, d, u["driver"], data, u["hist"], u["i"])
    finally:
        acc.rmdir(d, collect=True)
    special = (not data) or b"\x00" in data or b"\x7f" in data or max(data, default=0) > 127 or len(data) in LENGTHS
    acc.case([u["driver"], hashlib.sha1(data).hexdigest(), u["hist"]], nontrivial=special)
    if r:
        acc.violation(f"{r[0]}:{u['driver']}", f"{r[1]} [bytes #{u['i']} len {len(data)} {data[:16]!r}]", u | {"tier": acc.tier})
    elif acc.evaluations % 40 == 1:
        acc.sample({"driver": u["driver"], "length": len(data), "head": data[:16].hex(), "history": u["hist"]})


def inconclusive(cov):
    c = cov["counters"]
    return [f"monitor counter {k} is zero" for k in ("readbacks", "marker_cases", "cross_container_copies", "packed_with_given_metadata", "files_replaced_at_same_path", "merged_records_read", "histories", "symlinked_sources") if not c.get(k)]


def replay(case, acc):
    acc.tier = case.get("tier", acc.tier)
    run_unit(case, acc)
