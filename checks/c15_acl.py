"""C15 — node restrictions cannot be escaped by navigation: BFS over wrapper states reached by
navigation chains, terminals (mutators / readers / upward moves) per reached state."""
from __future__ import annotations

import gc
import itertools
import random

import numpy as np

from vlib import conteng as CE
from vlib import families as F
from vlib import h5eng as E
from vlib import tocoracle

PROPERTY = "C15"
LEVEL = "exploration"
RULE = (
    "containers with data, attributes and metadata on the h5py and IH5 drivers; start nodes {root group, nested group, "
    "dataset} x all 7 non-empty flag combinations (read_only, local_only, skel_only) x start variants {restricted fresh wrapper; wrapper navigated from BEFORE it is restricted; child of a local-only ancestor restricted further afterwards}. From the restricted start node all "
    "navigation chains up to length 3 (quick) / 5 (thorough) over the primitives [] relative/absolute, get, items, "
    "values, iteration, visititems callback argument, parent, metador.query results, require_group (and file, observed "
    "only) are explored breadth-first over wrapper states (node, flags, local parent); chains are counted, terminals run "
    "once per distinct reached state: every mutator of the group/dataset/attribute/metadata protocol must raise and leave "
    "the raw container dump unchanged (read_only), every reader must raise (skel_only), every reached node must lie at or "
    "below the start and upward/absolute operations must raise (local_only), flags of every reached wrapper must include "
    "the start's flags, restrict(flag=False) and writes to the dict returned by .acl must not clear a flag. non-trivial = chain of length >=1; distinct = "
    "(driver, start, flags, chain)."
)
ANCHORS = ["src/metador_core/container/wrappers.py", "src/metador_core/container/interface.py"]
ASSUMPTIONS = [
    "`file` is not in the statement's list of navigation forms: chains through it are explored and reported as observations, not violations",
    "h5py-specific dataset extras outside the H5DatasetLike protocol (np.asarray, iteration, read_direct, astype) and IH5's copy_into_patch are reported as observations",
]
WORKERS = {"quick": 14, "thorough": 16}
FLAGS = ["read_only", "local_only", "skel_only"]


def build(d, driver):
    F.register()
    from metador_core.plugins import schemas
    sub = CE.Subject(d, driver)
    mc = sub.mc
    mc["g/d"] = np.arange(4)
    mc["g/sub/e"] = [1, 2]
    mc["g/sub/deep/f"] = 3
    mc["top"] = "x"
    mc["g"].attrs["a"] = 1
    mc["g/d"].attrs["b"] = 2
    mc["g/sub"].attrs["c"] = 3
    mc.attrs["r"] = 0
    Dir = schemas.get("core.dir", (0, 1, 0))
    Mat = schemas.get("example.matsci.material", (0, 1, 0))
    mc["g"].meta[Dir] = Dir(name="g")
    mc["g/d"].meta[Mat] = Mat(materialName="m")
    mc["g/sub"].meta[Dir] = Dir(name="s")
    mc["g/sub/e"].meta[Mat] = Mat(materialName="e")
    mc.meta[Dir] = Dir(name="root")
    if driver != "h5":
        sub.boundary("commit")
    return sub


def raw_dump(raw):
    out = {}
    def f(name, node):
        out["/" + name] = [("D", E.norm(node[()])) if E.is_ds(node) else ("G",), {k: E.norm(v) for k, v in node.attrs.items()}]
    raw.visititems(f)
    out["/"] = [("G",), {k: E.norm(v) for k, v in raw.attrs.items()}]
    return out


def is_group(n):
    return not E.is_ds(n)


def first_child(n, want_group=None):
    for k in n.keys():
        c = n[k]
        if want_group is None or is_group(c) == want_group:
            return k
    return None


# ---- navigation primitives: node -> list of reached nodes (exceptions = refused = nothing reached)
def p_getitem_rel(n):
    return [n[k] for k in list(n.keys())[:2]] if is_group(n) else []


def p_getitem_nested(n):
    out = []
    if is_group(n):
        n.visit(lambda name: out.append(name) if "/" in name and len(out) < 2 else None)
    return [n[p] for p in out]


def p_getitem_abs(n):
    return [n["/g/sub"], n["/top"], n["/"]] if is_group(n) else []


def p_get(n):
    return [x for x in (n.get(k) for k in list(n.keys())[:2]) if x is not None] + [n.get("/g")] if is_group(n) else []


def p_items(n):
    return [v for _, v in list(n.items())[:2]] if is_group(n) else []


def p_values(n):
    return list(n.values())[:2] if is_group(n) else []


def p_iter(n):
    return [n[k] for k in list(iter(n))[:1]] if is_group(n) else []


def p_visititems(n):
    out = []
    if is_group(n):
        n.visititems(lambda name, node: out.append(node) if len(out) < 3 else None)
    return out


def p_parent(n):
    return [n.parent]


def p_query(n):
    return list(n.metador.query("core.dir"))[:2] + list(n.metador.query("example.matsci.material"))[:2]


def p_require_group(n):
    k = first_child(n, True) if is_group(n) else None
    return [n.require_group(k)] if k else []


def p_file(n):
    return [n.file]


PRIMS = {"[rel]": p_getitem_rel, "[nested]": p_getitem_nested, "[abs]": p_getitem_abs, "get": p_get, "items": p_items,
         "values": p_values, "iter": p_iter, "visititems": p_visititems, "parent": p_parent, "query": p_query,
         "require_group": p_require_group, "file": p_file}


def flags_of(n):
    return frozenset(k.name for k, v in n.acl.items() if v)


def state_key(n):
    lp = getattr(n, "_self_local_parent", None)
    return (n.name, flags_of(n), lp.name if lp is not None else None, is_group(n))


# ---- terminals


def mutators(n, schemas):
    Spec = schemas.get("example.matsci.specimen", (0, 1, 0))
    t = {}
    if is_group(n):
        kid = first_child(n)
        t.update({
            "__setitem__": lambda: n.__setitem__("zz_new", 1), "create_group": lambda: n.create_group("zz_g"),
            "create_dataset": lambda: n.create_dataset("zz_d", data=1), "require_group(new)": lambda: n.require_group("zz_rg"),
            "require_dataset(new)": lambda: n.require_dataset("zz_rd", shape=(1,), dtype="i8"),
        })
        if kid:
            t.update({"__delitem__": lambda: n.__delitem__(kid), "move": lambda: n.move(kid, "zz_mv"),
                      "copy": lambda: n.copy(kid, "zz_cp"), "copy(node)": lambda: n.copy(n[kid], n, name="zz_cp2")})
    else:
        t.update({"ds.__setitem__": lambda: n.__setitem__((), 9), "ds.__setitem__[0]": lambda: n.__setitem__(0, 9),
                  "ds.resize": lambda: n.resize((2,)), "ds.write_direct": lambda: n.write_direct(np.arange(4)),
                  "ds.flush": lambda: n.flush(), "ds.make_scale": lambda: n.make_scale("s")})
    ak = next(iter(n.attrs.keys()), None)
    t.update({"attrs.__setitem__": lambda: n.attrs.__setitem__("zz_a", 1), "attrs.update": lambda: n.attrs.update({"zz_a": 1}),
              "attrs.setdefault": lambda: n.attrs.setdefault("zz_a", 1), "attrs.create": lambda: n.attrs.create("zz_a", 1),
              "attrs.clear": lambda: n.attrs.clear()})
    if ak:
        t.update({"attrs.__delitem__": lambda: n.attrs.__delitem__(ak), "attrs.pop": lambda: n.attrs.pop(ak),
                  "attrs.modify": lambda: n.attrs.modify(ak, 5), "attrs.popitem": lambda: n.attrs.popitem()})
    mk = next(iter(n.meta.keys()), None)
    t["meta.__setitem__"] = lambda: n.meta.__setitem__(Spec, Spec(diameter=1.0, gaugeLength=2.0))
    if mk:
        t["meta.__delitem__"] = lambda: n.meta.__delitem__(mk)
    return t


def readers(n):
    t = {}
    if not is_group(n):
        t.update({"ds[()]": lambda: n[()], "ds[0]": lambda: n[0] if n.ndim else n[()], "ds[...]": lambda: n[...]})
    ak = next(iter(n.attrs.keys()), None)
    if ak:
        t.update({"attrs[k]": lambda: n.attrs[ak], "attrs.get": lambda: n.attrs.get(ak), "attrs.values": lambda: list(n.attrs.values()),
                  "attrs.items": lambda: list(n.attrs.items()), "attrs.pop": lambda: n.attrs.pop(ak)})
    mk = next(iter(n.meta.keys()), None)
    if mk:
        t.update({"meta[k]": lambda: n.meta[mk], "meta.get": lambda: n.meta.get(mk), "meta.values": lambda: list(n.meta.values()),
                  "meta.items": lambda: list(n.meta.items())})
    return t


def upward(n, is_start):
    t = {"file": lambda: n.file}
    if is_group(n):
        t.update({"[abs]": lambda: n["/top"], "get(abs)": lambda: n.get("/top"), "create_group(abs)": lambda: n.create_group("/zz_esc"),
                  "__setitem__(abs)": lambda: n.__setitem__("/zz_esc2", 1), "require_group(abs)": lambda: n.require_group("/g"),
                  "__delitem__(abs)": lambda: n.__delitem__("/top"), "visit-abs": lambda: n["/"]})
    if is_start == "local-root":
        t["parent"] = lambda: n.parent
    return t


def extras(n):
    t = {}
    if not is_group(n):
        t.update({"np.asarray(ds)": lambda: np.asarray(n), "iter(ds)": lambda: list(iter(n)), "ds.read_direct": lambda: n.read_direct(np.zeros(4, dtype="i8")),
                  "ds.astype": lambda: n.astype("f8")[()], "ds.copy_into_patch": lambda: n.copy_into_patch()})
    return t


def explore(acc, d, driver, start_path, flagset, maxlen, seed, variant="fresh"):
    from metador_core.plugins import schemas
    sub = build(d, driver)
    desc0 = [driver, start_path, sorted(flagset), variant]

    def start_node():
        n = sub.mc["/"] if start_path == "/" else sub.mc[start_path]
        if variant == "prenav":
            # the wrapper has been navigated from BEFORE it is restricted (anything cached then must not survive)
            for pf in PRIMS.values():
                try:
                    pf(n)
                except Exception:
                    pass
        if variant == "midchain" and start_path != "/":
            # the start is reached from a local-only ancestor and gets its further restrictions afterwards
            par = start_path.rsplit("/", 1)[0] or "/"
            anc = (sub.mc["/"] if par == "/" else sub.mc[par]).restrict(local_only=True)
            n = anc[start_path.rsplit("/", 1)[1]]
            n.restrict(**{f: True for f in flagset})  # (local_only is inherited; setting it again would make n its own local root)
            flagset.add("local_only")
            return n
        return n.restrict(**{f: True for f in flagset})

    def rebuild():
        nonlocal sub
        sub.close()
        gc.collect()
        sub = build(acc.newdir("c15r"), driver)

    try:
        S = start_node()
        sname = S.name
        frontier = [((), S)]
        seen = {state_key(S): ()}
        through_file = set()
        nchains = 0
        for depth in range(maxlen + 1):
            nxt = []
            for chain, n in frontier:
                key = state_key(n)
                via_file = "file" in chain
                acc.case(desc0 + [list(chain)], nontrivial=len(chain) >= 1)
                # ---- invariants of the reached wrapper
                missing = set(flagset) - flags_of(n)
                if missing and not via_file:
                    acc.violation(f"flag-dropped:{'+'.join(sorted(missing))}:{chain[-1] if chain else 'start'}",
                                  f"wrapper reached by {list(chain)} from {start_path} {sorted(flagset)} lacks {sorted(missing)} (has {sorted(flags_of(n))})",
                                  {"driver": driver, "start": start_path, "flags": sorted(flagset), "variant": variant, "chain": list(chain)})
                elif missing:
                    acc.count("observation.file_escape_drops_flags")
                lroot = sname if variant != "midchain" else (start_path.rsplit("/", 1)[0] or "/")
                if "local_only" in flagset and not E.is_sub(lroot, n.name) and not via_file:
                    acc.violation(f"escaped-upward:{chain[-1] if chain else 'start'}",
                                  f"local-only start {start_path}: chain {list(chain)} reaches {n.name}",
                                  {"driver": driver, "start": start_path, "flags": sorted(flagset), "variant": variant, "chain": list(chain)})
                if not via_file:
                    bad = terminals(acc, sub, n, flagset, "local-root" if (n.name == lroot and getattr(n, "_self_local_parent", None) is None) else False, schemas, desc0, chain)
                    if bad == "rebuild":
                        rebuild()
                        return  # state of the container is gone; remaining chains are explored in other units/seeds
                    before = flags_of(n)
                    try:
                        n.restrict(read_only=False, local_only=False, skel_only=False)
                    except Exception:
                        pass
                    if not before <= flags_of(n):
                        acc.violation("restrict-cleared", f"restrict(flag=False) cleared {sorted(before - flags_of(n))} on {n.name}",
                                      {"driver": driver, "start": start_path, "flags": sorted(flagset), "variant": variant, "chain": list(chain)})
                    acc.count("restrict_checks")
                if depth == maxlen:
                    continue
                for pname, pf in PRIMS.items():
                    try:
                        reached = pf(n)
                    except Exception:
                        acc.count(f"primitive_refused.{pname}")
                        continue
                    for m in reached:
                        if m is None or not hasattr(m, "acl"):
                            continue
                        nchains += 1
                        k2 = state_key(m)
                        c2 = chain + (pname,)
                        if k2 not in seen or ("file" in seen[k2] and "file" not in c2):
                            seen[k2] = c2
                            nxt.append((c2, m))
            frontier = nxt
        acc.count("chains_explored", nchains)
        acc.count("distinct_states", len(seen))
        if len(acc.samples) < 3:
            acc.sample({"driver": driver, "start": start_path, "flags": sorted(flagset),
                        "some_chains": [list(c) for c in list(seen.values())[:8]]})
    finally:
        sub.close()
        gc.collect()


def terminals(acc, sub, n, flagset, is_start, schemas, desc0, chain):
    case = {"driver": desc0[0], "start": desc0[1], "flags": desc0[2], "variant": desc0[3], "chain": list(chain)}
    # whatever the public surface hands out about the restrictions is the caller's to scribble on: it must not be the live state
    acc.count("terminals.acl_dict_writes")
    try:
        handed_out = n.acl
        for k in list(handed_out):
            handed_out[k] = False
        handed_out.clear()
    except Exception:
        pass
    if not set(flagset) <= flags_of(n):
        acc.violation("restriction-lifted:acl-dict", f"writing to the dict returned by .acl of {n.name} (chain {list(chain)}) cleared {sorted(set(flagset) - flags_of(n))}", case | {"terminal": "acl-dict"})
        return "rebuild"
    if "read_only" in flagset:
        before = raw_dump(sub.raw)
        for name, fn in mutators(n, schemas).items():
            acc.count("terminals.mutator")
            try:
                fn()
                accepted = True
            except Exception:
                accepted = False
            if accepted:
                changed = raw_dump(sub.raw) != before
                acc.violation(f"mutator-accepted:{name}", f"{name} on {n.name} (reached by {list(chain)} from read-only {desc0[1]} {desc0[2]}) "
                              f"was not refused{' and changed the container' if changed else ''}", case | {"terminal": name})
                if changed:
                    return "rebuild"
        if raw_dump(sub.raw) != before:
            acc.violation("mutator-refused-but-effect", f"refused mutators on {n.name} (chain {list(chain)}) left the raw container changed", case)
            return "rebuild"
    if "skel_only" in flagset:
        for name, fn in readers(n).items():
            acc.count("terminals.reader")
            try:
                v = fn()
            except Exception:
                continue
            acc.violation(f"reader-yielded:{name}", f"{name} on skeleton-only {n.name} (chain {list(chain)}) returned {str(v)[:60]!r}", case | {"terminal": name})
        for name, fn in extras(n).items():
            try:
                fn()
                acc.count(f"observation.skel_only_extra_yields.{name}")
            except Exception:
                pass
    if "local_only" in flagset:
        before = raw_dump(sub.raw)
        for name, fn in upward(n, is_start).items():
            acc.count("terminals.upward")
            try:
                v = fn()
            except Exception:
                continue
            acc.violation(f"upward-accepted:{name}", f"{name} on local-only {n.name} (chain {list(chain)}) returned {str(v)[:60]!r}", case | {"terminal": name})
        if raw_dump(sub.raw) != before:
            acc.violation("upward-effect", f"upward operations on {n.name} changed the raw container", case)
            return "rebuild"
    if flagset == {"read_only"}:
        for name, fn in extras(n).items():
            if name == "ds.copy_into_patch":
                try:
                    fn()
                    acc.count("observation.read_only_copy_into_patch_accepted")
                except Exception:
                    pass
    return None


def units(tier, seed):
    us = []
    combos = [c for r in (1, 2, 3) for c in itertools.combinations(FLAGS, r)]
    for driver in ("h5", "ih5"):
        for start in ("/", "/g", "/g/sub", "/g/d"):
            for c in combos:
                for variant in ("fresh", "prenav", "midchain"):
                    if variant == "midchain" and (start == "/" or "local_only" in c):
                        continue
                    us.append({"driver": driver, "start": start, "flags": list(c), "maxlen": 3 if tier == "quick" else 5, "seed": seed, "variant": variant})
    return us


def run_unit(u, acc):
    d = acc.newdir("c15")
    try:
        explore(acc, d, u["driver"], u["start"], set(u["flags"]), u["maxlen"], u["seed"], u.get("variant", "fresh"))
        acc.count("variants." + u.get("variant", "fresh"))
    finally:
        acc.rmdir(d, collect=True)


def inconclusive(cov):
    c = cov["counters"]
    return [f"monitor counter {k} is zero" for k in ("terminals.mutator", "terminals.reader", "terminals.upward", "chains_explored", "restrict_checks") if not c.get(k)]


def replay(case, acc):
    run_unit({"driver": case["driver"], "start": case["start"], "flags": [f for f in case["flags"] if f != "local_only" or case.get("variant") != "midchain"],
              "maxlen": max(3, len(case.get("chain", []))), "seed": 0, "variant": case.get("variant", "fresh")}, acc)
