"""C04 — only coherent, untampered file sets open: fault enumeration against real records."""
from __future__ import annotations

import gc
import json
import os
import random
import shutil
from pathlib import Path

from vlib import h5eng as E
from vlib import receng as RE

PROPERTY = "C04"
LEVEL = "fault_enumeration"
RULE = (
    "valid records with 2-5 committed containers (random histories, IH5Record and IH5MFRecord); per record the fault "
    "classes: payload byte XOR (quick: sampled offsets incl. first 512/last 64 payload bytes; thorough: every offset of the first 2 KiB and last 256 bytes of every "
    "container's payload and every 5th offset in between), truncation/extension, removal of each non-newest chain element (base included), "
    "substitution by the same-index container of a foreign record with identical content, substitution by a fork, "
    "patch stacked on the other fork, duplicated container, extra foreign container, nulled hash of a non-newest "
    "container, chain faults below an uncommitted newest container (predecessor removed / foreign / forked / flipped), edited prev_patch/record_uuid/patch_uuid, duplicated patch_uuid, manifest removed/flipped/replaced (as sidecar, and handed over via manifest_file= with the sidecar intact), stub "
    "as non-base, baseless sets opened with allow_baseless=True (flips, gap, foreign container); each opened by explicit list and by name in r (sampled: r+/a, which must also not create a file). "
    "Oracle: a faulty set must raise. Controls that must open: unmutated set, ASCII-safe change in user-block padding, "
    "removal of the newest container, fork as newest, uncommitted newest, missing sidecar of a non-newest container. "
    "non-trivial = a fault was applied (controls are trivial); distinct = (record, fault descriptor)."
)
ANCHORS = ["src/metador_core/ih5/record.py", "src/metador_core/ih5/manifest.py", "src/metador_core/util/hashsums.py"]
ASSUMPTIONS = [
    "faults the property does not name (e.g. editing the newest container's own unreferenced patch_uuid or index) are not asserted",
    "interpreter flag -O (which removes the stub-as-patch assert) is outside the quantifier",
]
WORKERS = {"quick": 12, "thorough": 16}
UB = 1024


def classify(e: Exception) -> str:
    m = str(e)
    for key, name in (("checksum", "hash-mismatch"), ("hdf5_checksum is missing", "hash-missing"),
                      ("record_uuid", "record-uuid"), ("greater index", "index"), ("predecessor", "prev-link"),
                      ("prev_patch", "prev-link"), ("not unique", "uuid-distinct"), ("Manifest", "manifest"),
                      ("manifest", "manifest"), ("look like a valid IH5", "userblock")):
        if key in m:
            return name
    if isinstance(e, OSError):
        return "hdf5-error"
    if isinstance(e, AssertionError):
        return "assert"
    return type(e).__name__


def write_ub(path, mutate):
    """Rewrite the user block JSON of a file after mutate(dict)."""
    with open(path, "r+b") as f:
        head = f.read(UB)
        l0, l1, rest = head.split(b"\n", 2)
        js = json.loads(rest.split(b"\x00", 1)[0])
        mutate(js)
        data = l0 + b"\n" + l1 + b"\n" + json.dumps(js).encode()
        assert len(data) < UB
        f.seek(0)
        f.write(data + b"\x00")


class Rec:
    """A pristine record on disk + derived material (foreign twin, forks)."""

    def __init__(self, rng, d, clsname, acc, seed=None):
        self.cls = RE.CLS[clsname]
        self.clsname = clsname
        self.d = Path(d)
        self.P = self.d / "pristine"
        self.P.mkdir()
        self.seed = seed if seed is not None else rng.randrange(1 << 30)
        n = rng.randint(2, 5)
        r1 = random.Random(self.seed)
        rec, self.log, self.commits = RE.build_record(r1, self.P, "rec", self.cls, n, ops_per=(1, 6), exts_prob=0.3)
        self.files = [Path(p) for p in rec.ih5_files]
        self.view = E.dump_walk(rec)
        rec.close()
        # foreign twin with identical content (same generator seed => same operations)
        self.F = self.d / "foreign"
        self.F.mkdir()
        r2 = random.Random(self.seed)
        frec, _, _ = RE.build_record(r2, self.F, "rec", self.cls, n, ops_per=(1, 6), exts_prob=0.3)
        self.ffiles = [Path(p) for p in frec.ih5_files]
        assert E.dump_walk(frec) == self.view
        frec.close()
        self.n = n

    def stage(self, W, files=None):
        """Copy (a subset of) the pristine set incl. sidecars into W; return list of staged container paths."""
        W = Path(W)
        shutil.rmtree(W, ignore_errors=True)
        W.mkdir(parents=True)
        out = []
        for p in files if files is not None else self.files:
            shutil.copy(p, W / p.name)
            if RE.sidecar(p).exists():
                shutil.copy(RE.sidecar(p), RE.sidecar(W / p.name))
            out.append(W / p.name)
        return out

    def make_fork(self, i, rng, stacked=0):
        """Alternative patch with index i on the predecessors 0..i-1 (+ `stacked` patches on top of it)."""
        K = self.d / f"fork{i}_{stacked}"
        staged = self.stage(K, self.files[:i])
        r = self.cls(staged, "r+")
        r[f"fork{i}"] = rng.randint(0, 999)
        r.commit_patch()
        for s in range(stacked):
            r.create_patch()
            r[f"fork{i}s{s}"] = s
            r.commit_patch()
        out = [Path(p) for p in r.ih5_files][i:]
        r.close()
        return out


def attempt(cls, what, mode="r", **kw):
    """-> ('opened', info) | ('raised', reason)"""
    try:
        r = cls(what, mode, **kw)
    except Exception as e:
        gc.collect()
        return "raised", classify(e)
    try:
        info = f"{len(r.ih5_files)} containers, keys {sorted(r.keys())[:5]}"
    except Exception as e:
        info = f"opened but unreadable: {e}"
    RE.safe_close(r, commit=False)
    return "opened", info


def run_record(rng, acc, d, clsname, tier, rec_seed=None):
    R = Rec(rng, d, clsname, acc, rec_seed)
    cls = R.cls
    W = R.d / "work"
    rid = f"{clsname}:{R.seed}"
    viol = []

    def must_fail(desc, files, by_name_dir=None, modes=("r",)):
        for mode in modes:
            for how, what in (("list", list(files)),) + ((("name", by_name_dir / "rec"),) if by_name_dir else ()):
                before = set(os.listdir(by_name_dir)) if by_name_dir else None
                res, info = attempt(cls, what, mode)
                acc.count(f"faults.{desc[0]}")
                acc.count(f"detected_by.{info}" if res == "raised" else "undetected")
                acc.case([rid, desc, how, mode], nontrivial=True)
                if res == "opened":
                    viol.append((desc, f"corrupted set opened (by {how}, mode {mode}): {info}"))
                if by_name_dir and mode != "r" and set(os.listdir(by_name_dir)) != before:
                    viol.append((desc, f"failed open in mode {mode} changed the directory: {sorted(set(os.listdir(by_name_dir)) ^ before)}"))

    def must_open(desc, files, expect_view=None, by_name_dir=None):
        for how, what in (("list", list(files)),) + ((("name", by_name_dir / "rec"),) if by_name_dir else ()):
            try:
                r = cls(what, "r")
            except Exception as e:
                gc.collect()
                acc.count("harness_errors")
                acc.note(f"control {desc} did not open ({how}): {e}")
                return
            try:
                if expect_view is not None and E.dump_walk(r) != expect_view:
                    acc.count("harness_errors")
                    acc.note(f"control {desc} shows another view")
            finally:
                r.close()
            acc.count(f"controls.{desc[0]}")
            acc.case([rid, desc, how, "control"], nontrivial=False)

    # ---------------- controls
    st = R.stage(W)
    must_open(["unmutated"], st, R.view, W)
    with open(st[0], "r+b") as f:  # ASCII-safe change far behind the NUL terminator of the user block
        f.seek(UB - 20)
        f.write(b"\x01")
    must_open(["padding-edit"], st, R.view, W)
    st = R.stage(W, R.files[:-1])
    must_open(["newest-removed"], st, R.commits[-2]["dump"], W)
    if clsname == "IH5MFRecord" and R.n >= 2:
        st = R.stage(W)
        RE.sidecar(st[0]).unlink()
        must_open(["old-sidecar-missing"], st, R.view, W)
    st = R.stage(W)
    r = cls(st, "r+")
    r["unc"] = 1
    r.close(commit=False)
    must_open(["uncommitted-newest"], sorted(W.glob("*.ih5")), None, W)
    # ---- chain faults BELOW an uncommitted newest container (an interrupted session): the rest of the chain is still checked
    unc_name = sorted(W.glob("*.ih5"), key=lambda q: RE.disk_ublock(q)["patch_index"])[-1].name
    unc_bytes = (W / unc_name).read_bytes()
    def with_unc(files):
        (W / unc_name).write_bytes(unc_bytes)
        return list(files) + [W / unc_name]
    st = R.stage(W, R.files[:-1])  # direct predecessor of the interrupted patch removed
    must_fail(["below-uncommitted", "predecessor-removed"], with_unc(st))
    st = R.stage(W)  # ... replaced by the same-index container of the foreign twin
    shutil.copy(R.ffiles[-1], st[-1])
    must_fail(["below-uncommitted", "predecessor-foreign"], with_unc(st))
    if R.n >= 2:
        fk = R.make_fork(R.n - 1, rng)  # ... replaced by another fork of the same index
        st = R.stage(W)
        shutil.copy(fk[0], st[-1])
        if RE.sidecar(fk[0]).exists():
            shutil.copy(RE.sidecar(fk[0]), RE.sidecar(st[-1]))
        must_fail(["below-uncommitted", "predecessor-forked"], with_unc(st))
        st = R.stage(W)  # ... payload of the predecessor flipped
        b = bytearray(st[-1].read_bytes())
        b[UB + 8 + rng.randrange(len(b) - UB - 8)] ^= 0x10
        st[-1].unlink()
        st[-1].write_bytes(bytes(b))
        must_fail(["below-uncommitted", "predecessor-flipped"], with_unc(st))
    i = rng.randrange(1, R.n)
    fork = R.make_fork(i, rng)
    st = R.stage(W, R.files[:i])
    shutil.copy(fork[0], W / fork[0].name)
    if RE.sidecar(fork[0]).exists():
        shutil.copy(RE.sidecar(fork[0]), RE.sidecar(W / fork[0].name))
    must_open(["fork-as-newest"], st + [W / fork[0].name], None, W)

    # ---------------- 1. payload byte flips (in place, restored afterwards)
    st = R.stage(W)
    # (the staged set is verified once at these very paths, and every flipped variant keeps size AND both timestamps of the
    # verified file -- silent corruption does not announce itself through stat())
    must_open(["staged-before-flips"], st, R.view)
    for ci, p in enumerate(st):
        data = p.read_bytes()
        size = len(data)
        st0 = os.stat(p)
        if tier == "thorough":
            # every offset of the first 2 KiB and the last 256 bytes of the payload, every 5th offset (random phase) in between
            ph = rng.randrange(5)
            offs = sorted(set(range(UB, min(size, UB + 2048))) | set(range(max(UB, size - 256), size)) | set(range(UB + ph, size, 5)))
            masks = [rng.choice([0x01, 0x80, 0xFF])]
        else:
            offs = sorted(set(list(range(UB, min(size, UB + 512), 7)) + list(range(max(UB, size - 64), size, 3)) +
                              [rng.randrange(UB, size) for _ in range(40)]))
            masks = [rng.choice([0x01, 0x80, 0xFF])]
        tmp = p.with_suffix(".tmp")
        for off in offs:
            for m in masks:
                # every variant gets a fresh inode: HDF5 shares per-file state by (device, inode) inside a process
                b = bytearray(data)
                b[off] ^= m
                tmp.write_bytes(bytes(b))
                os.replace(tmp, p)
                os.utime(p, ns=(st0.st_atime_ns, st0.st_mtime_ns))
                acc.count("flips_with_identical_stat") if (os.stat(p).st_size, os.stat(p).st_mtime_ns) == (st0.st_size, st0.st_mtime_ns) else None
                by_name = W if off % 97 == 0 else None
                must_fail(["flip", ci, off, m], st, by_name)
        tmp.write_bytes(data)
        os.replace(tmp, p)
        os.utime(p, ns=(st0.st_atime_ns, st0.st_mtime_ns))
        acc.count("distinct_offsets_flipped", len(offs))
    must_open(["restored-after-flips"], st, R.view, W)

    # ---------------- 2. truncation / extension
    for ci in range(R.n):
        size = R.files[ci].stat().st_size
        for kind, delta in [("trunc", 1), ("trunc", 2), ("trunc", 7), ("trunc", 512), ("trunc-to-ub", size - UB),
                            ("ext", 1), ("ext", 8), ("ext", 4096)]:
            st = R.stage(W)
            with open(st[ci], "r+b") as f:
                if kind.startswith("trunc"):
                    if size - delta < UB:
                        continue
                    f.truncate(size - delta)
                else:
                    f.seek(0, 2)
                    f.write(bytes(rng.randrange(256) for _ in range(delta)) if rng.random() < 0.5 else b"\x00" * delta)
            must_fail([kind, ci, delta], st, W)

    # ---------------- 3. removal of a non-newest element
    for ci in range(R.n - 1):
        st = R.stage(W, [p for j, p in enumerate(R.files) if j != ci])
        must_fail(["remove", ci], st, W, modes=("r", "r+") if ci == 0 else ("r",))

    # ---------------- 4. substitution by the same-index container of a foreign record with identical content
    for ci in range(R.n):
        st = R.stage(W)
        shutil.copy(R.ffiles[ci], st[ci])
        if RE.sidecar(R.ffiles[ci]).exists():
            shutil.copy(RE.sidecar(R.ffiles[ci]), RE.sidecar(st[ci]))
        must_fail(["foreign-subst", ci], st, W)
    # ---------------- 7. extra foreign container
    st = R.stage(W)
    shutil.copy(R.ffiles[-1], W / "recx.p9.ih5")
    must_fail(["foreign-extra"], st + [W / "recx.p9.ih5"])
    shutil.copy(R.ffiles[-1], W / f"rec.p{R.n + 3}.ih5")
    must_fail(["foreign-extra-named"], st + [W / f"rec.p{R.n + 3}.ih5"], W)

    # ---------------- 5. forks
    for i in range(1, R.n - 1):  # fork replaces a NON-newest element
        fork = R.make_fork(i, rng)
        st = R.stage(W)
        shutil.copy(fork[0], st[i])
        if RE.sidecar(fork[0]).exists():
            shutil.copy(RE.sidecar(fork[0]), RE.sidecar(st[i]))
        must_fail(["fork-subst", i], st, W)
    for i in range(1, R.n):  # original element i followed by a patch that was stacked on the OTHER fork
        fork = R.make_fork(i, rng, stacked=1)
        st = R.stage(W, R.files[: i + 1])
        tgt = W / f"rec.p{i + 1}.ih5"
        shutil.copy(fork[1], tgt)
        if RE.sidecar(fork[1]).exists():
            shutil.copy(RE.sidecar(fork[1]), RE.sidecar(tgt))
        must_fail(["stacked-on-other-fork", i], st + [tgt], W)
        # control: the fork chain itself is a valid record
        st2 = R.stage(W, R.files[:i])
        more = []
        for fp in fork:
            shutil.copy(fp, W / fp.name)
            if RE.sidecar(fp).exists():
                shutil.copy(RE.sidecar(fp), RE.sidecar(W / fp.name))
            more.append(W / fp.name)
        must_open(["fork-chain"], st2 + more, None, W)

    # ---------------- 6. duplicate of element i under another name
    for ci in range(R.n):
        st = R.stage(W)
        dup = W / f"dup{ci}.ih5"
        shutil.copy(st[ci], dup)
        must_fail(["duplicate", ci], st + [dup])

    # ---------------- 9. user block edits
    for ci in range(R.n - 1):
        st = R.stage(W)
        write_ub(st[ci], lambda js: js.__setitem__("hdf5_hashsum", None))
        must_fail(["ub-hash-nulled", ci], st, W)
    def tweak(u):
        c = u[-1]
        return u[:-1] + ("0" if c != "0" else "1")
    for ci in range(R.n):
        for fld in ("record_uuid", "prev_patch", "patch_uuid"):
            if fld == "prev_patch" and ci == 0:
                continue
            if fld == "patch_uuid" and ci == R.n - 1:
                continue  # unreferenced: not a fault the property names
            st = R.stage(W)
            write_ub(st[ci], lambda js: js.__setitem__(fld, tweak(js[fld])))
            must_fail(["ub-edit", fld, ci], st, W)
    for ci in range(1, R.n):  # a patch claiming the SAME index as its predecessor (links intact): no strictly increasing chain
        st = R.stage(W)
        pidx = RE.disk_ublock(st[ci - 1])["patch_index"]
        write_ub(st[ci], lambda js: js.__setitem__("patch_index", pidx))
        must_fail(["ub-index-equal", ci], st)
        must_fail(["ub-index-equal-reversed", ci], list(reversed(st)))
    st = R.stage(W)
    write_ub(st[0], lambda js: js.__setitem__("prev_patch", js["patch_uuid"]))
    must_fail(["ub-base-with-prev"], st, W)
    st = R.stage(W)
    base_uuid = RE.disk_ublock(st[0])["patch_uuid"]
    write_ub(st[-1], lambda js: js.__setitem__("patch_uuid", base_uuid))
    must_fail(["ub-duplicate-patch-uuid"], st, W)
    st = R.stage(W)
    with open(st[rng.randrange(R.n)], "r+b") as f:  # destroyed magic
        f.write(b"xh5_v01")
    must_fail(["ub-magic"], st, W)

    # ---------------- 8. manifest faults
    if clsname == "IH5MFRecord":
        st = R.stage(W)
        RE.sidecar(st[-1]).unlink()
        must_fail(["manifest-removed"], st, W, modes=("r", "a"))
        mfb = RE.sidecar(R.files[-1]).read_bytes()
        for off in sorted({0, len(mfb) // 2, len(mfb) - 2, rng.randrange(len(mfb)), rng.randrange(len(mfb))}):
            st = R.stage(W)
            b = bytearray(mfb)
            b[off] ^= 0x01
            RE.sidecar(st[-1]).write_bytes(bytes(b))
            must_fail(["manifest-flip", off], st, W)
        st = R.stage(W)
        shutil.copy(RE.sidecar(R.files[-2]), RE.sidecar(st[-1]))
        must_fail(["manifest-of-older-patch"], st, W)
        st = R.stage(W)
        shutil.copy(RE.sidecar(R.ffiles[-1]), RE.sidecar(st[-1]))
        must_fail(["manifest-of-other-record"], st, W)
        st = R.stage(W)
        RE.sidecar(st[-1]).write_bytes(mfb + b"\n")
        must_fail(["manifest-extended"], st, W)
        # the manifest handed over EXPLICITLY (manifest_file=...), the canonical sidecar left intact beside the container
        X = R.d / "explicit"
        X.mkdir(exist_ok=True)
        st = R.stage(W)
        b = bytearray(mfb)
        b[rng.randrange(len(b))] ^= 0x01
        cands = {"flipped": bytes(b), "of-older-patch": RE.sidecar(R.files[-2]).read_bytes(),
                 "of-other-record": RE.sidecar(R.ffiles[-1]).read_bytes(), "extended": mfb + b" ", "missing": None}
        for kind, content in cands.items():
            mp = X / f"{kind}.json"
            if content is not None:
                mp.write_bytes(content)
            res, info = attempt(cls, list(st), "r", manifest_file=mp)
            acc.count("faults.explicit-manifest")
            acc.count(f"detected_by.{info}" if res == "raised" else "undetected")
            acc.case([rid, ["explicit-manifest", kind], "list", "r"], nontrivial=True)
            if res == "opened":
                viol.append((["explicit-manifest", kind], f"set opened with a manifest_file that is not the one its newest container links ({kind}): {info}"))
        mp = X / "exact copy.json"
        mp.write_bytes(mfb)
        res, info = attempt(cls, list(st), "r", manifest_file=mp)
        if res == "opened":
            acc.count("controls.explicit-manifest-exact-copy")
        else:
            acc.count("harness_errors")
            acc.note(f"control explicit-manifest-exact-copy did not open: {info}")
        # a stub placed as non-base
        S = R.d / "stubdir"
        S.mkdir(exist_ok=True)
        stub = cls.create_stub(S / f"st{rng.randrange(1 << 30)}", RE.sidecar(R.files[0]))
        sfile = Path(stub.ih5_files[0])
        stub.close()
        st = R.stage(W)
        write_ub(sfile, lambda js: (js.__setitem__("prev_patch", RE.disk_ublock(st[0])["patch_uuid"]),
                                    js.__setitem__("patch_index", 1)))
        tgt = W / "rec.p1.ih5"
        shutil.copy(sfile, tgt)
        shutil.copy(RE.sidecar(R.files[0]), RE.sidecar(tgt))
        must_fail(["stub-as-patch"], [st[0], tgt])

    # ---------------- 10. baseless sets (explicit allow_baseless=True): the base requirement is waived, integrity is not
    if R.n >= 3:
        def attempt_bl(files):
            try:
                r = cls(list(files), "r", allow_baseless=True)
            except Exception as e:
                gc.collect()
                return "raised", classify(e)
            RE.safe_close(r, commit=False)
            return "opened", f"{len(files)} containers"
        st = R.stage(W, R.files[1:])
        res, info = attempt_bl(st)
        if res != "opened":
            acc.count("harness_errors")
            acc.note(f"control baseless set did not open: {info}")
        else:
            acc.count("controls.baseless")
            acc.case([rid, ["baseless-control"]], nontrivial=False)
        for ci in range(len(st)):
            data = st[ci].read_bytes()
            for off in sorted({UB + 3, len(data) - 5, rng.randrange(UB, len(data)), rng.randrange(UB, len(data))}):
                b = bytearray(data)
                b[off] ^= 0x01
                tmp = st[ci].with_suffix(".tmp")
                tmp.write_bytes(bytes(b))
                os.replace(tmp, st[ci])
                res, info = attempt_bl(st)
                acc.count("faults.baseless-flip")
                acc.count(f"detected_by.{info}" if res == "raised" else "undetected")
                acc.case([rid, ["baseless-flip", ci, off]], nontrivial=True)
                if res == "opened":
                    viol.append((["baseless-flip", ci, off], f"baseless set (allow_baseless=True) with a flipped payload byte in container {ci + 1} opened"))
            tmp = st[ci].with_suffix(".tmp")
            tmp.write_bytes(data)
            os.replace(tmp, st[ci])
        if R.n >= 4:
            st = R.stage(W, [R.files[1]] + R.files[3:])
            res, info = attempt_bl(st)
            acc.count("faults.baseless-gap")
            acc.case([rid, ["baseless-gap"]], nontrivial=True)
            if res == "opened":
                viol.append((["baseless-gap"], "baseless set with a gap in the chain opened"))
        st = R.stage(W, R.files[1:])
        shutil.copy(R.ffiles[2], st[1])
        res, info = attempt_bl(st)
        acc.count("faults.baseless-foreign")
        acc.case([rid, ["baseless-foreign"]], nontrivial=True)
        if res == "opened":
            viol.append((["baseless-foreign"], "baseless set with a foreign container opened"))

    for desc, msg in viol[:6]:
        acc.violation(f"{desc[0]}:{clsname}", f"{msg}; fault {desc} on record {rid}",
                      {"cls": clsname, "seed": R.seed, "fault": desc})
    if acc.evaluations and len(acc.samples) < 3:
        acc.sample({"record": rid, "containers": R.n, "sizes": [p.stat().st_size for p in R.files],
                    "example_faults": [["flip", 0, UB + 7, 1], ["remove", 0], ["foreign-subst", 1], ["ub-hash-nulled", 0]]})


def units(tier, seed):
    n = 12 if tier == "quick" else 32
    return [{"seed": seed * 31337 + i, "cls": list(RE.CLS)[i % 2]} for i in range(n)]


def run_unit(u, acc):
    d = acc.newdir("c4")
    try:
        run_record(random.Random(u["seed"]), acc, d, u["cls"], acc.tier)
    finally:
        acc.rmdir(d, collect=True)


def inconclusive(cov):
    c = cov["counters"]
    r = []
    need = ["faults.flip", "faults.remove", "faults.foreign-subst", "faults.duplicate", "faults.ub-hash-nulled",
            "faults.manifest-flip", "faults.below-uncommitted", "flips_with_identical_stat", "faults.explicit-manifest", "controls.explicit-manifest-exact-copy", "faults.stub-as-patch", "faults.stacked-on-other-fork", "controls.unmutated",
            "controls.padding-edit", "controls.fork-as-newest", "controls.uncommitted-newest", "controls.baseless", "faults.baseless-flip"]
    for k in need:
        if not c.get(k):
            r.append(f"fault/control class never exercised: {k}")
    return r


def replay(case, acc):
    d = acc.newdir("c4")
    try:
        # the record is regenerated from its seed; all faults of the record are re-run
        run_record(random.Random(case["seed"]), acc, d, case["cls"], "quick", rec_seed=case["seed"])
    finally:
        acc.rmdir(d, collect=True)
