"""C09 — identical behaviour on plain HDF5 and on IH5 records: lock-step differential over drivers."""
from __future__ import annotations

import gc
import random

from vlib import conteng as CE
from vlib import families as F
from vlib import h5eng as E
from vlib import tocoracle
from vlib.shrink import shrink_list

PROPERTY = "C09"
LEVEL = "exploration"
RULE = (
    "one state-guided random container history (C06 operation set + data operations of C01, keys within the IH5 "
    "alphabet, no links) is executed in lock-step through MetadorContainer on h5py.File, IH5Record and IH5MFRecord, the "
    "IH5 ones with patch boundaries and reopen points at generated positions. After every step: equal ok/fail status; "
    "equal user view (data tree by two walkers, attributes, probes), per node the attached {schema reference: JSON} map "
    "(public API), TOC public view (schemas, packages, parent paths, children, providers, embedded schemas, versions) "
    "and raw (schema, node) pairs up to a bijection of UUIDs, and query result sets for sampled schemas/versions/start "
    "nodes. Plus a systematic copy/move family (source shapes dataset/group/nested with attributes and metadata x destination "
    "as path / deep path / group object / named / relative through the parent handle x without_attrs/without_meta "
    "combinations x patch-boundary placements, then touches of the copy and deletion of the original). non-trivial = history with >=1 patch boundary, >=2 attachments and >=1 structural operation."
)
ANCHORS = ["src/metador_core/container/drivers.py", "src/metador_core/container/wrappers.py", "src/metador_core/ih5/overlay.py"]
ASSUMPTIONS = ["exception classes are not compared, only ok/fail"]
WORKERS = {"quick": 14, "thorough": 16}
DRV = ["h5", "ih5", "ih5mf"]


def user_view(mc, rng_names, full=True):
    dump, probes = E.full_dump(mc, ["/zz"], None if full else [])
    meta = {}
    for p in dump:
        node = mc if p == "/" else mc[p]
        m = node.meta
        meta[p] = {str(r): m.get(r.name, tuple(r.version)).json_dict() for r in m.query()}
    q = {}
    for name, ver, start in rng_names:
        if start in dump:
            node = mc if start == "/" else mc[start]
            q[f"{name}|{ver}|{start}"] = sorted(x.name for x in mc.metador.query(name, ver, node=node))
    sc = tocoracle.scan(mc.__wrapped__)
    pairs = sorted((ep, node) for ep, _, node in sc["objects"].values())
    tv = CE.toc_public_view(mc)
    return {"tree": dump, "probes": probes, "meta": meta, "queries": q, "toc_pairs": pairs, "toc": tv,
            "toc_errors": [e[0] for e in sc["errors"]]}


def first_diff(a, b):
    for k in a:
        if a[k] != b[k]:
            if isinstance(a[k], dict):
                kk = sorted(x for x in set(a[k]) | set(b[k]) if a[k].get(x) != b[k].get(x))[0]
                return k, f"{k}[{kk}]: {str(a[k].get(kk))[:160]} vs {str(b[k].get(kk))[:160]}"
            return k, f"{k}: {str(a[k])[:200]} vs {str(b[k])[:200]}"
    return None


def run_history(acc, d, seed, nops, ops=None, record=True):
    F.register()
    rng = random.Random(seed)
    subs = {}
    for drv in DRV:
        (d / drv).mkdir()
        subs[drv] = CE.Subject(d / drv, drv)
    ref = CE.Reference(d)
    gen = CE.ContGen(rng, "ih5", families=True)
    done, mm = [], None
    nbound = 0
    try:
        n = nops if ops is None else len(ops)
        for step in range(n):
            op = gen.next(ref) if ops is None else ops[step]
            ref.apply(op)
            done.append(op)
            st = {drv: E.st(s.apply(op)) for drv, s in subs.items()}
            nbound += op[0] in ("commit", "reopen")
            if record:
                acc.count(f"ops.{E.inner(op)[0]}.{st['h5']}")
            if len(set(st.values())) != 1:
                mm = (f"status:{E.inner(op)[0]}", f"{op}: {st}")
                break
            nodes = list(ref.shadow) + ["/"]
            qs = [(rng.choice(CE.ALLNAMES), rng.choice([None, (0, 1, 0), (0, 2, 0), (0, 9, 0)]), rng.choice(nodes)) for _ in range(4)]
            views = {}
            for drv, s in subs.items():
                try:
                    views[drv] = user_view(s.mc, qs, full=(step % 3 == 0 or step == n - 1))
                except Exception as e:
                    mm = ("view-unreadable:" + drv, f"after {op}: reading the user view on {drv} raised {type(e).__name__}: {e}")
                    break
            if mm:
                break
            if record:
                acc.count("views_compared", 2)
            for drv in ("ih5", "ih5mf"):
                df = first_diff(views["h5"], views[drv])
                if df:
                    mm = (f"view:{df[0]}:{drv}", f"after {op}: h5 vs {drv}: {df[1]}")
                    break
            if mm:
                break
        if record and mm is None:
            nmeta = sum(1 for o in done if o[0] == "meta")
            nstruct = sum(1 for o in done if o[0] in ("copy2", "copyobj", "move", "del", "copy"))
            acc.case(done, nontrivial=nbound >= 1 and nmeta >= 2 and nstruct >= 1)
            if acc.evaluations % 60 == 1:
                acc.sample({"ops": done[:14]})
        return done, mm
    finally:
        for s in subs.values():
            s.close()
        ref.close()
        gc.collect()


def run_case(acc, case, record=True):
    d = acc.newdir("c9")
    try:
        return run_history(acc, d, case["seed"], case.get("nops", 0), case.get("ops"), record)
    finally:
        acc.rmdir(d)


def check_case(acc, case):
    done, mm = run_case(acc, case)
    if mm is None:
        return
    kind = mm[0]
    acc.count("mismatch." + kind)
    if acc.counters["mismatch." + kind] > 2 or len(acc.violations) >= 8:
        return

    def fails(ops):
        _, m = run_case(acc, {**case, "ops": ops}, record=False)
        return m is not None and m[0] == kind

    small = shrink_list(done, fails, max_trials=100)
    _, m2 = run_case(acc, {**case, "ops": small}, record=False)
    m2 = m2 or mm
    acc.violation(m2[0], f"{m2[1]} (shrunk to {len(small)} ops: {small})", {"seed": case["seed"], "ops": small})


from vlib.matrix import matrix_histories  # noqa: E402


def units(tier, seed):
    n = 120 if tier == "quick" else 840
    us = [{"seed": seed * 30011 + i, "n": 3} for i in range(0, n, 3)]
    nm = len(matrix_histories())
    idx = list(range(nm)) if tier == "thorough" else [i for i in range(nm) if (i + seed) % 8 == 0]
    us += [{"matrix": idx[i:i + 2], "seed": seed} for i in range(0, len(idx), 2)]
    return us


def run_unit(u, acc):
    if "matrix" in u:
        hs = matrix_histories()
        for i in u["matrix"]:
            acc.count("matrix_histories")
            check_case(acc, {"seed": u["seed"], "ops": hs[i]})
        return
    rng = random.Random(u["seed"])
    for j in range(u["n"]):
        check_case(acc, {"seed": u["seed"] * 977 + j, "nops": rng.randint(6, 25)})


def inconclusive(cov):
    c = cov["counters"]
    return [f"monitor counter {k} is zero" for k in ("views_compared", "ops.commit.ok", "ops.meta.ok", "matrix_histories", "ops.copy2.ok", "ops.copyobj.ok") if not c.get(k)]


def replay(case, acc):
    check_case(acc, case)
