"""C20 — containers are self-describing: embedded JSON Schema, parent chain, provider per stored object."""
from vlib import contcheck as CC

PROPERTY = "C20"
LEVEL = "exploration"
RULE = (
    "the container histories of C06 over installed schemas and harness-registered families (several versions, three "
    "inheritance levels, constants, units, nested models); after every attachment and at sampled steps, for EVERY object "
    "found by the TOC oracle's own raw scan (not by query): the stored JSON validates (Draft 7) against the embedded "
    "JSON Schema of its reference, the embedded schema equals the class's schema_json, the embedded parent chain equals "
    "schemas.parent_path, the provider record (name, version, plugin list) equals schemas.provider and lists the schema; "
    "after reopen the freshly loaded container reports the same (public TOC view comparison). non-trivial = >=2 "
    "attachments and >=1 structural operation; distinct = hash of the op list."
)
ANCHORS = ["src/metador_core/container/interface.py", "src/metador_core/schema/core.py", "src/metador_core/schema/pg.py"]
# (plugin/entrypoints.py runs at import time only, before reach measurement starts)
ASSUMPTIONS = ["Draft 7 validation by the jsonschema package installed in /venv"]
WORKERS = {"quick": 14, "thorough": 16}
MON = {"selfdesc", "reopen"}


def units(tier, seed):
    return CC.make_units(tier, seed, 400, 9000)


def run_unit(u, acc):
    CC.run_units(u, acc, MON)


def inconclusive(cov):
    c = cov["counters"]
    return [f"monitor counter {k} is zero" for k in ("selfdesc_objects", "reopen_comparisons") if not c.get(k)]


def replay(case, acc):
    CC.check_case(acc, case, MON)
