"""C13 — child instances are valid parent instances; unsafe field overrides are refused by check_types."""

import itertools
import json
import random
from typing import List, Literal, Optional, Set, Union

PROPERTY = "C13"
LEVEL = "exploration"
RULE = (
    "(a) generated instances of every installed schema and harness family member are serialised and parsed by every "
    "ancestor on schemas.parent_path; (b) ALL ordered pairs (parent field type, child field type) over a pool of ~45 "
    "types from the documented grammar (strict and lax primitives, phantom string types and subclasses, constrained "
    "numbers, Literal sets incl. the True/1 overlap, enums, Optional, Unions and their subsets, List/Set of those, nested "
    "schema vs subclass vs unrelated schema; thorough adds depth-2 compositions) are turned into Parent/Child classes and "
    "run through check_types; for every ACCEPTED pair each corpus value v with Child(f=v) valid must satisfy "
    "Parent.parse_raw(bytes(Child(f=v))) (soundness of acceptance only; a conservative rejection is fine); @override-"
    "declared pairs must be accepted; every pair also as three-level chains (Optional parent made mandatory / re-annotated; the "
    "override sitting in an intermediate class from which the checked child inherits the field untouched, with the plugin "
    "markers on the outer two classes / all / none): acceptance of the leaf must be sound against every ancestor; (c) a child loosening the parent's extra-field policy or adding fields under "
    "extra=forbid must be refused. non-trivial = accepted pair with >=1 valid child value; distinct = the type pair."
)
ANCHORS = ["src/metador_core/schema/core.py", "src/metador_core/util/typing.py", "src/metador_core/schema/decorators.py", "src/metador_core/schema/pg.py"]
ASSUMPTIONS = ["date/time types excluded as the property states", "value corpus is a boundary corpus, not all values"]
WORKERS = {"quick": 12, "thorough": 16}

_ctr = [0]
INVALID_ON_OWN = set()  # nested classes of the pool that check_types refuses on their own (e.g. an undeclared widening)


def pool(tier):
    from pydantic import NonNegativeInt, PositiveFloat, PositiveInt, conint
    from metador_core.schema import MetadataSchema
    from metador_core.schema.types import Bool, Float, HashsumStr, Int, MimeTypeStr, NonEmptyStr, QualHashsumStr, Str
    from vlib.schemagen import Color, Level

    class Inner(MetadataSchema):
        n: Int

    class InnerSub(Inner):
        m: Optional[Int]

    class InnerStrict(Inner):
        n: conint(strict=True, ge=0)  # type: ignore

    class InnerLoose(Inner):  # an UNDECLARED widening of the inherited field: invalid on its own, never checked on its own
        n: Union[Int, Str]

    class Other(MetadataSchema):
        x: Str

    class Forbid(MetadataSchema):
        class Config:
            extra = "forbid"
        n: Int

    base = {
        "Bool": Bool, "Int": Int, "Float": Float, "Str": Str, "bool": bool, "int": int, "float": float, "str": str,
        "NonEmptyStr": NonEmptyStr, "MimeTypeStr": MimeTypeStr, "HashsumStr": HashsumStr, "QualHashsumStr": QualHashsumStr,
        "PositiveInt": PositiveInt, "NonNegativeInt": NonNegativeInt, "PositiveFloat": PositiveFloat,
        "Lit[a]": Literal["a"], "Lit[a,b]": Literal["a", "b"], "Lit[1]": Literal[1], "Lit[1,2]": Literal[1, 2],
        "Lit[True]": Literal[True], "Lit[True,2]": Literal[True, 2], "Lit[a,1]": Literal["a", 1],
        "Color": Color, "Level": Level,
        "Opt[Int]": Optional[Int], "Opt[Str]": Optional[Str], "Opt[NonEmptyStr]": Optional[NonEmptyStr], "Opt[Lit[a,b]]": Optional[Literal["a", "b"]],
        "U[Int,Str]": Union[Int, Str], "U[Int,Str,Bool]": Union[Int, Str, Bool], "U[Str,Bool]": Union[Str, Bool], "U[Int,Float]": Union[Int, Float],
        "L[Int]": List[Int], "L[Str]": List[Str], "L[U[Int,Str]]": List[Union[Int, Str]], "L[NonEmptyStr]": List[NonEmptyStr],
        "S[Int]": Set[Int], "S[Str]": Set[Str],
        "Inner": Inner, "InnerSub": InnerSub, "InnerStrict": InnerStrict, "InnerLoose": InnerLoose, "L[InnerLoose]": List[InnerLoose],
        "Opt[InnerLoose]": Optional[InnerLoose], "Other": Other, "Forbid": Forbid,
        "Opt[Inner]": Optional[Inner], "L[Inner]": List[Inner], "L[InnerSub]": List[InnerSub],
    }
    from metador_core.schema.core import check_types
    for nm, c in (("InnerSub", InnerSub), ("InnerStrict", InnerStrict), ("InnerLoose", InnerLoose), ("Inner", Inner), ("Other", Other), ("Forbid", Forbid)):
        try:
            check_types(c)
        except (TypeError, ValueError):
            INVALID_ON_OWN.add(nm)
    if tier == "thorough":
        extra = {}
        for k in ("Int", "Str", "NonEmptyStr", "Lit[a,b]", "U[Int,Str]", "Inner", "InnerSub", "Bool", "int"):
            extra[f"Opt[L[{k}]]"] = Optional[List[base[k]]]
            extra[f"L[Opt-free U[{k},Bool]]"] = List[Union[base[k], Bool]]
            extra[f"U[{k},Lit[a]]"] = Union[base[k], Literal["a"]]
        base.update(extra)
    return base


CORPUS = [{"n": "a"}, [{"n": "a"}], True, False, 0, 1, -1, 2, 3, 11, 1.5, 0.0, -2.5, 2.0, "a", "b", "c", "", " ", " a ", "1", "true", "text/plain", "00ff", "zz",
          "sha256:00ff", "red", "b l u e", [], [1], [1, 2], ["a"], ["", "a"], [1, "a"], [True], [1.5], [[1]], {"n": 1}, {"n": -1}, {"n": 1, "m": 2},
          {"n": 1, "extra": "e"}, {"n": "1"}, {"n": True}, {"x": "y"}, {"n": 1.0}, [{"n": 1}], [{"n": 1, "m": 2}], [{"x": "y"}], [{"n": 1, "zz": 0}]]


OMIT = object()  # "no value given" (missing optionals are expressed by omission)


def build(Chi, v):
    return Chi() if v is OMIT else Chi(f=v)


def make_chain(P, C, mode):
    """Three levels: Grand(f: P) <- Parent (field made mandatory by decorator / re-annotated non-optional) <- Child(f: C)."""
    from metador_core.schema import MetadataSchema
    from metador_core.schema.decorators import make_mandatory
    from metador_core.util.typing import unoptional
    _ctr[0] += 1
    mk = type(MetadataSchema)
    Grand = mk(f"Gra{_ctr[0]}", (MetadataSchema,), {"__annotations__": {"f": P}, "__module__": __name__})
    if mode.startswith("inherit"):
        # Grand(f: P) <- Mid(f: C, the override under test) <- Child (inherits f untouched); the classes marked as plugins
        # (inner Plugin class, as registered schemas carry it) vary: only the outer two / all / none
        def plug(n):
            return {"Plugin": type("Plugin", (), {"name": f"c13.{n}{_ctr[0]}", "version": (0, 1, 0)})}
        marks = {"inherit-outer-plugins": (1, 0, 1), "inherit-all-plugins": (1, 1, 1), "inherit-no-plugins": (0, 0, 0)}[mode]
        Grand = mk(f"Gra{_ctr[0]}", (MetadataSchema,), {"__annotations__": {"f": P}, "__module__": __name__, **(plug("g") if marks[0] else {})})
        Par = mk(f"Mid{_ctr[0]}", (Grand,), {"__annotations__": {"f": C}, "__module__": __name__, **(plug("m") if marks[1] else {})})
        Chi = mk(f"Chi{_ctr[0]}", (Par,), {"__annotations__": {}, "__module__": __name__, **(plug("c") if marks[2] else {})})
        return Grand, Par, Chi
    if mode == "mandatory":
        Par = make_mandatory("f")(mk(f"Par{_ctr[0]}", (Grand,), {"__annotations__": {}, "__module__": __name__}))
    else:
        Par = mk(f"Par{_ctr[0]}", (Grand,), {"__annotations__": {"f": unoptional(P)}, "__module__": __name__})
    Chi = mk(f"Chi{_ctr[0]}", (Par,), {"__annotations__": {"f": C}, "__module__": __name__})
    return Grand, Par, Chi


def check_chain(acc, pn, P, cn, C, mode):
    from metador_core.schema.core import check_types
    try:
        Grand, Par, Chi = make_chain(P, C, mode)
    except Exception:
        acc.count("chains.class_creation_failed")
        return
    try:
        check_types(Chi)
        accepted = True
    except (TypeError, ValueError):
        accepted = False
    acc.count(f"chains.{mode}.{'accepted' if accepted else 'rejected'}")
    nvalid = 0
    if accepted:
        for v in CORPUS + [OMIT]:
            try:
                c = build(Chi, v)
                b = bytes(c)
            except Exception:
                continue
            nvalid += 1
            acc.count("values_checked")
            for anc in (Par, Grand):
                try:
                    anc.parse_raw(b)
                except Exception as e:
                    lvl = "parent" if anc is Par else "grandparent"
                    acc.violation(f"unsound-override-3level:{mode}:{pn}<-{cn}",
                                  f"three levels (grandparent f: {pn}; " + (f"intermediate class re-annotates f: {cn}; child inherits f untouched; plugin markers: {mode}" if mode.startswith("inherit") else
                                  f"parent makes f {'mandatory by @make_mandatory' if mode == 'mandatory' else 'non-optional by re-annotation'}; child f: {cn}") + "): check_types accepts the child, but its valid instance {b.decode().strip()} "
                                  f"({'f omitted' if v is OMIT else repr(v)}) is rejected by the {lvl} ({type(e).__name__})",
                                  {"parent": pn, "child": cn, "mode": mode, "value": None if v is OMIT else json.loads(json.dumps(v))})
                    return
    acc.case(["chain", mode, pn, cn], nontrivial=accepted and nvalid >= 1)


def make_pair(P, C, declared=False, default=OMIT):
    from metador_core.schema import MetadataSchema
    from metador_core.schema.decorators import override
    _ctr[0] += 1
    Par = type(MetadataSchema)(f"Par{_ctr[0]}", (MetadataSchema,), {"__annotations__": {"f": P}, "__module__": __name__})
    extra = {} if default is OMIT else {"f": default}  # `f: C = None` makes the field optional whatever C says
    Chi = type(MetadataSchema)(f"Chi{_ctr[0]}", (Par,), {"__annotations__": {"f": C}, "__module__": __name__, **extra})
    if declared:
        Chi = override("f")(Chi)
    return Par, Chi


def check_pair(acc, pn, P, cn, C, default=OMIT):
    from metador_core.schema.core import check_types
    tag = "" if default is OMIT else " = None"
    try:
        Par, Chi = make_pair(P, C, default=default)
    except Exception as e:
        acc.count("pairs.class_creation_failed")
        return
    try:
        check_types(Chi)
        accepted = True
    except (TypeError, ValueError):
        accepted = False
    acc.count("pairs.accepted" if accepted else "pairs.rejected")
    nvalid = 0
    if accepted:
        for v in CORPUS + [OMIT]:
            try:
                c = build(Chi, v)
            except Exception:
                continue
            nvalid += 1
            acc.count("values_checked")
            try:
                b = bytes(c)
            except Exception as e:
                continue
            try:
                Par.parse_raw(b)
            except Exception as e:
                acc.violation(f"unsound-override:{pn}<-{cn}{tag}",
                              f"check_types accepts child field `f: {cn}{tag}` for parent type {pn}, but value {'<f omitted>' if v is OMIT else repr(v)} is a valid child "
                              f"instance ({b.decode().strip()}) that the parent rejects ({type(e).__name__})",
                              {"parent": pn, "child": cn, "value": None if v is OMIT else json.loads(json.dumps(v))})
                break
    acc.case(["pair", pn, cn, tag], nontrivial=accepted and nvalid >= 1)
    if default is not OMIT:
        acc.count("pairs.default_none." + ("accepted" if accepted else "rejected"))
        return
    # a pair that check_types refuses is refused when it arrives as a plugin (registration), whatever its Plugin flags say
    if not accepted and hash((pn, cn)) % 6 == 0:
        from metador_core.plugin.util import register_in_group
        from metador_core.plugins import schemas
        from metador_core.schema import MetadataSchema
        for aux in (False, True):
            _ctr[0] += 1
            nm = f"c13.reg{acc.shard}x{_ctr[0]}"
            try:
                ParR = type(MetadataSchema)(f"ParR{_ctr[0]}", (MetadataSchema,), {"__annotations__": {"f": P}, "__module__": __name__})
                PB = type("Plugin", (), {"name": nm, "version": (0, 1, 0), "auxiliary": aux})
                ChiR = type(MetadataSchema)(f"ChiR{_ctr[0]}", (ParR,), {"Plugin": PB, "__annotations__": {"f": C}, "__module__": __name__})
            except Exception:
                break
            acc.count("refused_pairs_registered")
            try:
                register_in_group(schemas, ChiR, violently=True)
            except (TypeError, ValueError):
                continue
            acc.violation(f"unsound-override-registered:{pn}<-{cn}", f"the pair {pn} <- {cn} is refused by check_types, but a plugin with that override (auxiliary={aux}) "
                                                                    f"is registered without complaint", {"parent": pn, "child": cn})
            break
    # declared override must be accepted regardless
    if not accepted and pn != cn and not any(b in pn or b in cn for b in INVALID_ON_OWN):
        # (a pair involving a nested class that is invalid on its own is rightly refused whatever is declared for f)
        try:
            _, ChiD = make_pair(P, C, declared=True)
            check_types(ChiD)
            acc.count("declared_overrides_accepted")
        except Exception as e:
            acc.violation("declared-override-refused", f"@override-declared pair {pn} <- {cn} refused: {type(e).__name__}: {str(e)[:100]}",
                          {"parent": pn, "child": cn, "declared": True})


def check_extra_policy(acc):
    from metador_core.schema import MetadataSchema
    from metador_core.schema.types import Int
    for pol in ("allow", "ignore"):
        class PF(MetadataSchema):
            class Config:
                extra = "forbid"
            a: Int
        acc.count("extra_policy_checks")
        acc.case(["extra", pol], nontrivial=True)
        try:
            Cfg = type("Config", (), {"extra": pol})
            type(MetadataSchema)("CF", (PF,), {"Config": Cfg, "__annotations__": {}, "__module__": __name__})
            acc.violation("extra-policy-loosened", f"child with extra={pol} accepted although the parent forbids extra fields", {"kind": "extra", "policy": pol})
        except TypeError:
            pass
    class PF2(MetadataSchema):
        class Config:
            extra = "forbid"
        a: Int
    acc.count("extra_policy_checks")
    try:
        type(MetadataSchema)("CF2", (PF2,), {"__annotations__": {"b": Int}, "__module__": __name__})
        acc.violation("extra-policy-new-field", "child adds a field although the parent forbids extra fields", {"kind": "extra", "policy": "new-field"})
    except TypeError:
        pass
    # children of a parent that forbids extras, adding things in every way a class body can: whatever is ACCEPTED (class creation
    # and check_types) must only have instances the parent accepts too
    from typing import ClassVar, Optional
    from pydantic import Field
    from metador_core.schema.core import check_types
    variants = {
        "annotated field": {"__annotations__": {"b": Int}},
        "optional annotated field": {"__annotations__": {"b": Optional[Int]}},
        "annotated field with default": {"__annotations__": {"b": Int}, "b": 3},
        "default value only": {"__annotations__": {}, "note": "x"},
        "default value only (number)": {"__annotations__": {}, "count": 0},
        "Field() default only": {"__annotations__": {}, "note": Field("x")},
        "class variable": {"__annotations__": {"K": ClassVar[int]}, "K": 1},
        "private attribute": {"__annotations__": {}, "_hidden": 1},
        "method": {"__annotations__": {}, "helper": lambda self: 1},
    }
    for vname, body in variants.items():
        class PF3(MetadataSchema):
            class Config:
                extra = "forbid"
            a: Int
        acc.count("extra_policy_checks")
        acc.case(["extra", "child-variant", vname], nontrivial=True)
        try:
            CF3 = type(MetadataSchema)("CF3", (PF3,), dict(body, __module__=__name__))
            check_types(CF3)
        except Exception:
            acc.count("extra_policy.child_refused")
            continue
        acc.count("extra_policy.child_accepted")
        try:
            inst = CF3(a=1)
            b = bytes(inst)
        except Exception:
            continue
        try:
            PF3.parse_raw(b)
        except Exception as e:
            acc.violation("extra-policy-new-field", f"child of a parent that forbids extra fields is accepted with '{vname}', but its instance {b.decode().strip()} is "
                                                    f"rejected by the parent ({type(e).__name__})", {"kind": "extra", "policy": vname})
    # control: same policy / stricter child is fine
    class PA(MetadataSchema):
        a: Int
    Cfg = type("Config", (), {"extra": "forbid"})
    type(MetadataSchema)("CA", (PA,), {"Config": Cfg, "__annotations__": {}, "__module__": __name__})


def check_ancestors(acc, rng, per):
    from metador_core.plugins import schemas
    from vlib import families as F
    from vlib import schemagen as G
    F.register()
    for ref in list(schemas.keys()):
        cls = schemas.get(ref.name, tuple(ref.version))
        pp = schemas.parent_path(ref.name, tuple(ref.version))[:-1]
        if not pp:
            continue
        stats = {}
        for d, obj in G.instances(cls, rng, per, stats):
            b = bytes(obj)
            acc.case(["ancestor", ref.name, json.dumps(d, sort_keys=True, default=str)], nontrivial=True)
            for anc in pp:
                P = schemas.get(anc.name, tuple(anc.version))
                acc.count("ancestor_parses")
                try:
                    P.parse_raw(b)
                except Exception as e:
                    acc.violation(f"ancestor-rejects:{ref.name}->{anc.name}",
                                  f"instance of {ref.name} {tuple(ref.version)} is rejected by ancestor {anc.name} {tuple(anc.version)}: {type(e).__name__}: {str(e)[:150]} | {b[:200]!r}",
                                  {"kind": "ancestor", "schema": ref.name, "input": json.loads(json.dumps(d, default=str))})
                    break
        acc.count("ancestor_candidates_rejected", stats.get("rejected", 0))


def units(tier, seed):
    names = sorted(pool(tier))
    us = [{"kind": "pairs", "parent": pn} for pn in names]
    us += [{"kind": "ancestors", "seed": seed * 11 + i, "per": 40 if tier == "quick" else 300} for i in range(2 if tier == "quick" else 16)]
    us.append({"kind": "extra"})
    return us


_pool = {}


def run_unit(u, acc):
    if u["kind"] == "pairs":
        if acc.tier not in _pool:
            _pool[acc.tier] = pool(acc.tier)
        P = _pool[acc.tier]
        for cn in sorted(P):
            check_pair(acc, u["parent"], P[u["parent"]], cn, P[cn])
            if cn == u["parent"] or hash((cn, u["parent"])) % 5 == 0 or acc.tier == "thorough":
                check_pair(acc, u["parent"], P[u["parent"]], cn, P[cn], default=None)  # the child gives the field a None default
            if u["parent"].startswith("Opt["):
                for mode in ("mandatory", "reannotate"):
                    check_chain(acc, u["parent"], P[u["parent"]], cn, P[cn], mode)
            for mode in ("inherit-outer-plugins", "inherit-all-plugins", "inherit-no-plugins"):
                check_chain(acc, u["parent"], P[u["parent"]], cn, P[cn], mode)
        if u["parent"] == "Int":
            acc.sample({"parent_type": "Int", "child_types": sorted(P)[:10], "corpus_head": [repr(v) for v in CORPUS[:12]]})
    elif u["kind"] == "ancestors":
        check_ancestors(acc, random.Random(u["seed"]), u["per"])
    else:
        check_extra_policy(acc)


def inconclusive(cov):
    c = cov["counters"]
    return [f"monitor counter {k} is zero" for k in ("pairs.accepted", "pairs.rejected", "values_checked", "ancestor_parses", "extra_policy_checks", "refused_pairs_registered", "declared_overrides_accepted", "chains.mandatory.accepted", "chains.mandatory.rejected", "chains.reannotate.rejected",
                                                        "chains.inherit-outer-plugins.accepted", "chains.inherit-outer-plugins.rejected", "chains.inherit-all-plugins.rejected", "chains.inherit-no-plugins.rejected") if not c.get(k)]


def replay(case, acc):
    if "parent" in case:
        P = pool("thorough")
        check_pair(acc, case["parent"], P[case["parent"]], case["child"], P[case["child"]])
        if case.get("mode"):
            check_chain(acc, case["parent"], P[case["parent"]], case["child"], P[case["child"]], case["mode"])
    elif case.get("kind") == "extra":
        check_extra_policy(acc)
    else:
        check_ancestors(acc, random.Random(0), 60)
