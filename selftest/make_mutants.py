#!/usr/bin/env python3
"""Generates selftest/mutants/*.diff: small realistic breakages of /repo, one per file.
Each entry: (name, property ids whose quick check must fire, file, old text, new text)."""
import difflib
import json
import pathlib
import subprocess
import sys

REPO = pathlib.Path("/repo")
OUT = pathlib.Path(__file__).resolve().parent / "mutants"
S = "src/metador_core/"

M = [
    # ---------------- C01 overlay
    ("c01_children_ignore_virtual", "C01", S + "ih5/overlay.py",
     "                elif is_virtual[k]:  # .. and k in children!", "                elif True:  # .. and k in children!"),
    ("c01_children_max_instead_of_min", "C01", S + "ih5/overlay.py",
     "                    children[k] = min(children[k], i)", "                    children[k] = max(children[k], i)"),
    ("c01_del_filter_dropped", "C01", S + "ih5/overlay.py",
     "            and not _node_is_del_mark(self._get_child_raw(k, idx))\n        }", "        }"),
    ("c01_delete_no_marker_for_old_nodes", "C01", S + "ih5/overlay.py",
     "        if len(self._files) > 1:  # has patches? mark deleted (instead of real delete)\n            self._files[-1][path] = DEL_VALUE",
     "        if len(self._files) > 1 and path in self._files[-2]:  # has patches? mark deleted\n            self._files[-1][path] = DEL_VALUE"),
    ("c01_create_group_forgets_subst", "C01", S + "ih5/overlay.py",
     "            self._files[-1][first_new].attrs[SUBST_KEY] = h5py.Empty(None)\n            self._files[-1][path].attrs[SUBST_KEY] = h5py.Empty(None)",
     "            self._files[-1][first_new].attrs[SUBST_KEY] = h5py.Empty(None)"),
    ("c01_attr_delete_marker_dropped", "C01", S + "ih5/overlay.py",
     "            self._files[-1][self._gpath].attrs[key] = DEL_VALUE  # mark deleted",
     "            pass  # mark deleted"),
    ("c01_revert_children_fix", "C01", S + "ih5/overlay.py",
     "                    children[k] = min(children[k], i)\n                    is_virtual[k] = _node_is_virtual(self._get_child_raw(k, i))\n",
     "                    children[k] = min(children[k], i)\n"),
    ("c01_copy_snapshot_after_target", "C01", S + "ih5/overlay.py",
     "            source_node.visititems(collect_children)\n\n        trg_root = target_group.create_group(target_path)\n        copy_attrs(source_node, trg_root)  # copy source node attributes\n",
     "        trg_root = target_group.create_group(target_path)\n        copy_attrs(source_node, trg_root)  # copy source node attributes\n        if not shallow:\n            source_node.visititems(collect_children)\n"),
    ("c01_copy_skips_attrs_of_children", "C01,C05", S + "ih5/overlay.py",
     "                trg_root.create_group(name)\n            copy_attrs(src_child, trg_root[name])", "                trg_root.create_group(name)\n                copy_attrs(src_child, trg_root[name])"),
    # ---------------- C02 immutability
    ("c02_commit_reopens_rw", "C02", S + "ih5/record.py",
     "        self.__files__[-1] = h5py.File(filepath, \"r\")\n\n    def _fixes_after_merge", "        self.__files__[-1] = h5py.File(filepath, \"r+\")\n\n    def _fixes_after_merge"),
    ("c02_merge_saves_block_to_source", "C02,C05", S + "ih5/record.py",
     "        ub.save(cfile)\n        return cfile", "        ub.save(cfile)\n        ub.save(self.ih5_files[-1])\n        return cfile"),
    ("c02_discard_unlinks_committed", "C02,C03", S + "ih5/record.py",
     "        return self._delete_latest_container()", "        self._delete_latest_container()\n        if len(self.__files__) > 1:\n            self._delete_latest_container()"),
    ("c02_delete_files_prefix_match", "C02,C03", S + "ih5/record.py",
     "            if re.match(f\"^{record.name}[^{cls._ALLOWED_NAME_CHARS}]\", p.name)", "            if re.match(f\"^{record.name}\", p.name)"),
    ("c02_manifest_written_to_record_level_file", "C02,C10,C11", S + "ih5/manifest.py",
     "        mf.save(self._manifest_filepath(self._files[-1].filename))", "        mf.save(self._manifest_filepath(self._files[0].filename))"),
    # ---------------- C03 reopen / modes
    ("c03_sort_by_filename", "C03", S + "ih5/record.py",
     "        ret.__files__.sort(key=lambda f: ret._ublock(f).patch_index)", "        ret.__files__.sort(key=lambda f: f.filename)"),
    ("c03_a_truncates", "C03", S + "ih5/record.py",
     "        if mode[0] == \"w\" or mode == \"x\":\n            # create new or overwrite to get new\n            ret = self._create(path, truncate=(mode == \"w\"))",
     "        if mode[0] == \"w\" or mode == \"x\":\n            # create new or overwrite to get new\n            ret = self._create(path, truncate=(mode in (\"w\", \"x\")))"),
    ("c03_close_does_not_commit", "C03,C02", S + "ih5/record.py",
     "        if self._has_writable and commit:\n            self.commit_patch()", "        if self._has_writable and commit and len(self.__files__) == 1:\n            self.commit_patch()"),
    ("c03_userblock_last_nul", "C03,C11", S + "ih5/record.py",
     "dat[2][: dat[2].find(\"\\x00\")]", "dat[2][: dat[2].rfind(\"\\x00\")]"),
    ("c03_r_mode_allows_patching", "C03", S + "ih5/record.py",
     "            self._allow_patching = want_rw", "            self._allow_patching = True"),
    # ---------------- C04 coherence
    ("c04_newest_hash_unchecked", "C04", S + "ih5/record.py",
     "        if ub.hdf5_hashsum is not None:\n            chksum = hashsum_file", "        if check_hashsum and ub.hdf5_hashsum is not None:\n            chksum = hashsum_file"),
    ("c04_index_check_off_by_one", "C04", S + "ih5/record.py",
     "            if ub.patch_index <= prev.patch_index:", "            if ub.patch_index < prev.patch_index:"),
    ("c04_prev_patch_check_dropped", "C04", S + "ih5/record.py",
     "            if ub.prev_patch != prev.patch_uuid:", "            if False and ub.prev_patch != prev.patch_uuid:"),
    ("c04_uuid_distinct_dropped", "C04", S + "ih5/record.py",
     "        if len(cn_uuids) != len(ret.__files__):", "        if False and len(cn_uuids) != len(ret.__files__):"),
    ("c04_manifest_check_only_if_exists", "C04", S + "ih5/manifest.py",
     "            if not manifest_file.is_file():\n                msg = f\"Manifest file {manifest_file} does not exist, cannot open!\"\n                raise ValueError(f\"{ret._files[-1].filename}: {msg}\")\n\n            chksum",
     "            if not manifest_file.is_file():\n                return ret\n\n            chksum"),
    ("c04_hash_prefix_only", "C04,C19", S + "util/hashsums.py",
     "    while True:\n        chunk = data.read(h.block_size)\n        if not chunk:\n            break\n        h.update(chunk)",
     "    for _ in range(64):\n        chunk = data.read(h.block_size)\n        if not chunk:\n            break\n        h.update(chunk)"),
    ("c04_record_uuid_check_dropped", "C04", S + "ih5/record.py",
     "        if ub.record_uuid != self.ih5_uuid:", "        if False and ub.record_uuid != self.ih5_uuid:"),
    ("c04_base_prev_patch_allowed", "C04", S + "ih5/record.py",
     "        if not allow_baseless and ret._ublock(0).prev_patch is not None:", "        if False and ret._ublock(0).prev_patch is not None:"),
    # ---------------- C05 merge
    ("c05_root_attrs_not_copied", "C05", S + "ih5/record.py",
     "            for k, v in source_node.attrs.items():  # copy root attributes\n                target_node.attrs[k] = attr_value_for_copy(v)\n", ""),
    ("c05_merged_keeps_prev_patch", "C05", S + "ih5/record.py",
     "        ub = self._ublock(-1).copy(update={\"prev_patch\": self._ublock(0).prev_patch})", "        ub = self._ublock(-1).copy()"),
    ("c05_fresh_patch_uuid", "C05", S + "ih5/record.py",
     "        ub = self._ublock(-1).copy(update={\"prev_patch\": self._ublock(0).prev_patch})",
     "        ub = self._ublock(-1).copy(update={\"prev_patch\": self._ublock(0).prev_patch, \"patch_uuid\": uuid1()})"),
    ("c05_stub_check_removed", "C05,C10", S + "ih5/manifest.py",
     "        if any(map(is_stub, self.ih5_meta)):", "        if False and any(map(is_stub, self.ih5_meta)):"),
    ("c05_revert_ublock_fix", "C05", S + "ih5/record.py",
     "        self._fixes_after_merge(cfile, ub)  # for subclass hooks\n\n        ub.save(cfile)", "        self._fixes_after_merge(cfile, ub)  # for subclass hooks\n\n        self._set_ublock(-1, ub)\n        ub.save(cfile)"),
    ("c05_copy_without_attrs", "C05,C01", S + "ih5/overlay.py",
     "        if not without_attrs:\n            trg_atrs = trg_node.attrs", "        if not without_attrs and not isinstance(src_node, H5DatasetLike):\n            trg_atrs = trg_node.attrs"),
    # ---------------- C06 TOC
    ("c06_unregister_keeps_empty_schema_group", "C06", S + "container/interface.py",
     "        # delete empty group for schema\n        del self._raw[schema_group.name]", "        # delete empty group for schema\n        pass"),
    ("c06_unregister_skips_pkg_cleanup", "C06", S + "container/interface.py",
     "            if not len(pkg_used):\n                # package not used anymore in container -> clean up\n                self._pkgs._unregister(pkg)", "            pass"),
    ("c06_copy_without_repair", "C06,C07", S + "container/wrappers.py",
     "                # register copied metadata objects under new uuids\n                missing = self._self_container.metador._links.find_missing(dst_node)\n                self._self_container.metador._links.repair_missing(missing)",
     "                pass"),
    ("c06_move_without_update", "C06", S + "container/wrappers.py",
     "            self._self_container.metador._links.repair_missing(missing, update=True)", "            self._self_container.metador._links.repair_missing(missing, update=False)"),
    ("c06_destroy_meta_not_recursive", "C06", S + "container/wrappers.py",
     "        super()._destroy_meta(_unlink=_unlink)  # this node\n        for child in self.values():  # recurse\n            child._destroy_meta(_unlink=_unlink)",
     "        super()._destroy_meta(_unlink=_unlink)  # this node"),
    ("c06_del_raw_keeps_empty_metadir", "C06", S + "container/interface.py",
     "        if not self._objs:\n            del self._mc.__wrapped__[self._base_dir]", "        if False and not self._objs:\n            del self._mc.__wrapped__[self._base_dir]"),
    ("c06_revert_children_index_fix", "C06", S + "container/interface.py",
     "                self._children[parent].discard(schema_ref)\n                if parent not in self._schemas and all(", "                if parent in self._schemas:\n                    self._children[parent].remove(schema_ref)\n                elif all("),
    # ---------------- C07 metadata / queries
    ("c07_supports_swapped_in_get_raw", "C07", S + "container/interface.py",
     "        return ret if ret and req_ref.supports(ret.schema) else None", "        return ret if ret and ret.schema.supports(req_ref) else None"),
    ("c07_query_start_node_not_checked", "C07", S + "container/interface.py",
     "        if (schema_name, schema_ver) in start_node.meta:\n            yield start_node", "        if False:\n            yield start_node"),
    ("c07_setitem_duplicate_check_removed", "C07,C06", S + "container/interface.py",
     "        if self._get_raw(schema_name):  # <- only same schema", "        if False and self._get_raw(schema_name):  # <- only same schema"),
    ("c07_revert_set_raw_key", "C07", S + "container/interface.py",
     "            ret[obj.schema.name] = obj", "            ret[obj.schema] = obj"),
    ("c07_aux_schema_accepted", "C07", S + "container/interface.py",
     "        if schema_class.Plugin.auxiliary:  # reject auxiliary schemas in container", "        if False and schema_class.Plugin.auxiliary:  # reject auxiliary schemas in container"),
    ("c07_toc_versions_filter_reversed", "C07", S + "container/interface.py",
     "        return [ref for ref in refs if requested.supports(ref)]", "        return [ref for ref in refs if ref.supports(requested)]"),
    # ---------------- C08 reserved namespace
    ("c08_guard_removed_from_create_group", "C08", S + "container/wrappers.py",
     "    create_group = _wrap_method(\"create_group\")", "    create_group = lambda self, name, *a, **k: self._wrap_if_node(self.__wrapped__.create_group(name, *a, **k))  # noqa"),
    ("c08_internal_path_first_segment_only", "C08", S + "container/utils.py",
     "    return path.startswith(pref) or path.find(f\"/{pref}\") >= 0", "    return path.lstrip(\"/\").startswith(pref)"),
    ("c08_len_counts_raw", "C08", S + "container/wrappers.py",
     "        return len(list(self.keys()))", "        return len(self.__wrapped__)"),
    ("c08_visit_not_filtered", "C08", S + "container/wrappers.py",
     "            if M.is_internal_path(node.name):\n                return  # skip path/node", "            if False:\n                return  # skip path/node"),
    ("c08_revert_reversed_fix", "C08", S + "container/wrappers.py",
     "    def __reversed__(self):\n        # must be overridden, otherwise is passed through to the raw group\n        return reversed(list(self.keys()))\n\n", ""),
    ("c08_revert_copy_name_guard", "C08", S + "container/wrappers.py",
     "            self._guard_path(dst_name)  # could be a (user-provided) reserved name\n", ""),
    ("c08_revert_dataset_copy_nometa_fix", "C08", S + "container/wrappers.py",
     "        if src_is_dataset and not without_meta and len(src_node.meta):", "        if src_is_dataset and not without_meta:"),
    ("c08_contains_unguarded", "C08", S + "container/wrappers.py",
     "    def __contains__(self, name: str):\n        self._guard_path(name)\n", "    def __contains__(self, name: str):\n"),
    # ---------------- C09 drivers
    ("c09_ih5_copy_ignores_without_attrs", "C09", S + "ih5/overlay.py",
     "    without_attrs: bool = kwargs.pop(\"without_attrs\", False)", "    without_attrs: bool = kwargs.pop(\"without_attrs\", False) and False"),
    ("c09_ih5_move_keeps_source", "C09,C01", S + "ih5/overlay.py",
     "        self.copy(source, dest)\n        del self[source]", "        self.copy(source, dest)\n        if len(self._files) < 3:\n            del self[source]"),
    ("c09_revert_copy_node_source_fix", "C09,C06", S + "container/wrappers.py",
     "        raw_source = source if isinstance(source, str) else src_node.__wrapped__\n", "        raw_source = source\n"),
    # ---------------- C10 stubs / manifest
    ("c10_stub_skips_attributes", "C10", S + "ih5/skeleton.py",
     "        for a in v.attrs.keys():\n            ds[k].attrs[a] = h5py.Empty(None)", "        pass"),
    ("c10_stub_keeps_prev_patch", "C10", S + "ih5/skeleton.py",
     "    target._set_ublock(-1, src_ub.copy(update={\"prev_patch\": None}))", "    target._set_ublock(-1, src_ub.copy())"),
    ("c10_exts_not_inherited", "C10", S + "ih5/manifest.py",
     "        if self._manifest is not None:  # inherit attached data, if manifest exists\n            mf.manifest_exts = self.manifest.manifest_exts", "        pass"),
    ("c10_skeleton_omits_root", "C10", S + "ih5/skeleton.py",
     "        skel = {\"/\": SkeletonNodeInfo.for_node(rec[\"/\"])}", "        skel = {}"),
    ("c10_manifest_hash_of_stale_bytes", "C10,C04", S + "ih5/manifest.py",
     "            manifest_hashsum=qualified_hashsum(bytes(mf)),\n        ).update(new_ub)", "            manifest_hashsum=qualified_hashsum(bytes(mf)),\n        ).update(new_ub)\n        mf.manifest_exts = dict(mf.manifest_exts, written=True)"),
    # ---------------- C11 crash
    ("c11_patch_created_with_hash", "C11", S + "ih5/record.py",
     "        ub = IH5UserBlock.create(prev=self._ublock(-1))\n        self.__files__.append(self._new_container(path, ub))",
     "        ub = IH5UserBlock.create(prev=self._ublock(-1))\n        ub.hdf5_hashsum = self._ublock(-1).hdf5_hashsum\n        self.__files__.append(self._new_container(path, ub))\n        ub.hdf5_hashsum = None"),
    ("c11_commit_rewrites_previous_block", "C11,C02", S + "ih5/record.py",
     "        self._ublocks[filepath].save(filepath)\n\n        # reopen the container file now as read-only", "        self._ublocks[filepath].save(filepath)\n        if len(self.__files__) > 1:\n            self._ublock(-2).save(self.__files__[-2].filename)\n\n        # reopen the container file now as read-only"),
    # ---------------- C12 serialisation
    ("c12_revert_encoder_fix", "C12", S + "schema/core.py",
     "        super().__init__(name, bases, dct)  # (sets up the dynamic JSON encoder)\n", ""),
    ("c12_exclude_none_default_removed", "C12", S + "schema/base.py",
     "    if \"exclude_none\" not in kwargs:\n        kwargs[\"exclude_none\"] = True  # we treat None as \"missing\" so leave it out\n", ""),
    ("c12_by_alias_default_removed", "C12,C20", S + "schema/base.py",
     "    if \"by_alias\" not in kwargs:\n        kwargs[\"by_alias\"] = True  # e.g. so we get correct @id, etc fields\n", ""),
    ("c12_override_consts_not_applied", "C12", S + "schema/core.py",
     "        values.update(cls.__constants__)\n        return values", "        return values"),
    ("c12_duration_as_timedelta", "C12", S + "schema/types.py",
     "            return tcls(seconds=dur.total_seconds())", "            return dur if isinstance(dur, tcls) else tcls(seconds=int(dur.total_seconds()))"),
    # ---------------- C13
    ("c13_is_subtype_literal_status_ignored", "C13", S + "util/typing.py",
     "    if ann_sub != ann_base or lit_sub != lit_base:\n        return False  # not equal on annotated wrapping status", "    if ann_sub != ann_base:\n        return False  # not equal on annotated wrapping status\n    if lit_sub != lit_base:\n        return True"),
    ("c13_extra_policy_check_removed", "C13", S + "schema/core.py",
     "            if extra is not Extra.forbid:", "            if False and extra is not Extra.forbid:"),
    ("c13_revert_qualhashsum_fix", "C13", S + "schema/types.py",
     "class QualHashsumStr(NonEmptyStr, pattern=", "class QualHashsumStr(HashsumStr, pattern="),
    ("c13_override_check_skipped_for_optional_parent", "C13", S + "schema/core.py",
     "        if not is_subtype(hint, parent_hint):", "        from ..util.typing import is_optional as _io\n        if not _io(parent_hint) and not is_subtype(hint, parent_hint):"),
    # ---------------- C14
    ("c14_copy_removed_from_merge_with", "C14", S + "schema/partial.py",
     "        ret = self.copy()  # type: ignore\n        for f_name, v_new in", "        ret = self  # type: ignore\n        for f_name, v_new in"),
    ("c14_list_order_swapped", "C14", S + "schema/partial.py", "            return v_old + v_new", "            return v_new + v_old"),
    ("c14_union_replaced_by_overwrite", "C14", S + "schema/partial.py", "            return v_old.union(v_new)  # set union", "            return v_new  # set union"),
    ("c14_allow_overwrite_not_propagated", "C14", S + "schema/partial.py",
     "                        v_new_p, allow_overwrite=allow_overwrite, _path=path", "                        v_new_p, allow_overwrite=True, _path=path"),
    ("c14_revert_falsy_fix", "C14", S + "schema/partial.py",
     "            return v_new if v_new is not None else v_old", "            return v_new or v_old"),
    ("c14_field_vals_filter_falsy", "C14", S + "schema/partial.py",
     "            if is_public_name(k) and v is not None\n        )", "            if is_public_name(k) and v is not None and v != 0\n        )"),
    # ---------------- C15
    ("c15_child_kwargs_drop_skel", "C15", S + "container/wrappers.py",
     "            **{k.name: v for k, v in self.acl.items() if v},", "            **{k.name: v for k, v in self.acl.items() if v and k is not NodeAcl.skel_only},"),
    ("c15_parent_without_kwargs", "C15", S + "container/wrappers.py",
     "            self.__wrapped__.parent,\n            **self._child_node_kwargs(),", "            self.__wrapped__.parent,"),
    ("c15_visititems_raw_nodes", "C15", S + "container/wrappers.py",
     "            return func(name, self._wrap_if_node(node))", "            return func(name, MetadorGroup(self._self_container, node) if isinstance(node, H5GroupLike) else MetadorDataset(self._self_container, node))"),
    ("c15_attr_whitelist_widened", "C15", S + "container/wrappers.py",
     "        NodeAcl.read_only: {\"keys\", \"values\", \"items\", \"get\"},", "        NodeAcl.read_only: {\"keys\", \"values\", \"items\", \"get\", \"update\", \"pop\"},"),
    ("c15_restrict_assigns", "C15", S + "container/wrappers.py",
     "        self._self_flags.update({k: True for k, v in added_flags.items() if v})", "        self._self_flags.update(added_flags)"),
    ("c15_revert_dataset_getattr_fix", "C15", S + "container/wrappers.py",
     "        if isinstance(getattr(type(self), key, None), property):\n            # we only get here if the getter of a wrapper property refused access\n            # (the raised exception is an AttributeError) -> do not pass through!\n            raise UnsupportedOperationError(key)\n", ""),
    ("c15_meta_delete_unguarded", "C15", S + "container/interface.py",
     "        self._node._guard_acl(NodeAcl.read_only)\n        schema_name, _ = plugin_args(schema)", "        schema_name, _ = plugin_args(schema)"),
    # ---------------- C16
    ("c16_supports_minor_reversed", "C16,C07", S + "schema/plugins.py",
     "        if self.version[1] < other.version[1]:  # minor", "        if self.version[1] > other.version[1]:  # minor"),
    ("c16_supports_ignores_major", "C16", S + "schema/plugins.py",
     "        if self.version[0] != other.version[0]:  # major\n            return False\n", ""),
    ("c16_resolve_returns_first", "C16", S + "plugin/interface.py",
     "            return refs[-1]  # latest (compatible) version", "            return refs[0]  # latest (compatible) version"),
    ("c16_hash_includes_class", "C16", S + "schema/plugins.py",
     "        return hash((self.group, self.name, self.version))", "        return hash((type(self).__name__, self.group, self.name, self.version))"),
    ("c16_revert_ge_fix", "C16", S + "schema/plugins.py", "        return True  # equal\n", ""),
    ("c16_revert_add_ep_fix", "C16", S + "plugin/interface.py", "        if name not in self._VERSIONS:\n            self._VERSIONS[name] = []", "        if ep_name not in self._VERSIONS:\n            self._VERSIONS[name] = []"),
    ("c16_revert_register_sort_fix", "C16", S + "plugin/util.py", "        pgroup._VERSIONS[pg_ref.name].sort()  # must be in ascending order\n", ""),
    # ---------------- C17
    ("c17_void_replaced_by_bytes", "C17", S + "packer/utils.py",
     "    return numpy.void(bs) if len(bs) else h5py.Empty(\"b\")", "    return numpy.bytes_(bs) if len(bs) else h5py.Empty(\"b\")"),
    ("c17_guard_value_removed", "C17", S + "ih5/overlay.py",
     "        if _is_del_mark(data):\n            raise ValueError(f\"Value '{data}' is forbidden, cannot assign!\")", "        pass"),
    ("c17_content_size_off", "C17", S + "harvester/common.py", "        sz = path.stat().st_size", "        sz = len(path.read_text(errors=\"ignore\"))"),
    ("c17_hash_text_mode", "C17", S + "harvester/common.py", "        hs = hashsum(open(path, \"rb\"), \"sha256\")", "        hs = hashsum(open(path, \"rb\").read().rstrip(b\"\\x00\"), \"sha256\")"),
    # ---------------- C18
    ("c18_order_permuted", "C18", S + "util/diff.py", "        buckets = [self.removed, self.modified, None, self.added]", "        buckets = [self.removed, None, self.modified, self.added]"),
    ("c18_dir_to_file_children_added", "C18", S + "util/diff.py",
     "                d = cls.compare(v, None, kpath)\n                assert d is not None\n                ret.removed[kpath] = d\n            return ret",
     "                d = cls.compare(v, None, kpath)\n                assert d is not None\n                ret.added[kpath] = d\n            return ret"),
    ("c18_get_skips_removed", "C18", S + "util/diff.py",
     "            *(x.values() for x in [self.removed, self.modified, self.added])", "            *(x.values() for x in [self.modified, self.added])"),
    ("c18_equal_keys_shortcut", "C18", S + "util/diff.py",
     "        assert isinstance(prev, dict) and isinstance(curr, dict)\n", "        assert isinstance(prev, dict) and isinstance(curr, dict)\n        if prev.keys() == curr.keys() and all(isinstance(v, str) for v in prev.values()) and len(prev) > 1:\n            return None\n"),
    # ---------------- C19
    ("c19_revert_symlink_fix", "C19", S + "util/hashsums.py",
     "        if is_sym:  # must be checked first: is_file() follows symlinks", "        if is_sym and not is_file:  # must be checked first: is_file() follows symlinks"),
    ("c19_empty_dirs_dropped", "C19", S + "util/hashsums.py",
     "            if seg not in curr:\n                curr[seg] = dict()\n            curr = curr[seg]", "            if seg not in curr:\n                if not (is_file or is_sym) and seg == relpath.name and not any(path.iterdir()):\n                    break\n                curr[seg] = dict()\n            curr = curr[seg]"),
    ("c19_resolve_dropped", "C19", S + "util/hashsums.py",
     "        return path.resolve().relative_to(base.resolve())", "        return path.relative_to(base)"),
    # ---------------- C20
    ("c20_jsonschema_of_parent", "C20", S + "container/interface.py",
     "        jsonschema_dat = schema_cls.schema_json().encode(\"utf-8\")", "        jsonschema_dat = (schema_cls.__base__ if hasattr(schema_cls.__base__, \"Plugin\") and schema_cls.__base__.Plugin else schema_cls).schema_json().encode(\"utf-8\")"),
    ("c20_compat_without_self", "C20,C06", S + "container/interface.py",
     "        parents = schemas.parent_path(schema_ref.name, schema_ref.version)\n        parents_dat", "        parents = schemas.parent_path(schema_ref.name, schema_ref.version)[-1:]\n        parents_dat"),
    ("c20_load_json_wrong_node", "C20", S + "container/interface.py",
     "        node_path = self._jsonschema_path_for(schema_ref)\n        assert node_path in self._raw", "        node_path = self._jsonschema_path_for(next(iter(sorted(self._schemas)), schema_ref))\n        assert node_path in self._raw"),
    ("c20_constants_not_listed", "C20", S + "schema/core.py",
     "                    schema[\"properties\"][cname] = True\n", ""),
]


# mutants that turned out to be behaviour-preserving with respect to the property (argued, not observed)
EQUIVALENT = {
    "c01_create_group_forgets_subst": "the first new path segment keeps its SUBST mark and shadows everything older below it, so the mark on the final group is redundant",
    "c11_commit_rewrites_previous_block": "re-saves the previous container's user block IN PLACE with byte-identical content (same inode, same bytes): nothing a byte-level ledger or a crash of the new file's write can see; it was only observable while the in-memory user block could differ from the disk (repaired by 67e9d71)",
    "c08_contains_unguarded": "membership of a reserved name is still False (the filtered key listing decides), which is a rejection; absolute paths on local-only nodes still raise in __getitem__",
    "c18_order_permuted": "only the relative order of a directory and its MODIFIED children changes; the property constrains removals-before-parent and additions-after-parent, which still hold",
    "c20_constants_not_listed": "pydantic lists constant fields as properties anyway because add_const_fields registers them as model fields",
    "c12_by_alias_default_removed": "fails the upstream suite; for round trips field names are accepted on input (allow_population_by_field_name)",
    "c12_exclude_none_default_removed": "fails the upstream suite; explicit nulls parse back to None, the instance is equal",
}


def main():
    OUT.mkdir(exist_ok=True)
    for f in OUT.glob("*.diff"):
        f.unlink()
    meta = {}
    bad = 0
    for name, props, rel, old, new in M:
        src = (REPO / rel).read_text()
        if src.count(old) != 1:
            print(f"!! {name}: pattern occurs {src.count(old)} times in {rel}")
            bad += 1
            continue
        mut = src.replace(old, new)
        diff = "".join(difflib.unified_diff(src.splitlines(True), mut.splitlines(True), f"a/{rel}", f"b/{rel}"))
        (OUT / f"{name}.diff").write_text(diff)
        meta[name] = {"properties": props.split(","), "file": rel}
        if name in EQUIVALENT:
            meta[name]["equivalent"] = EQUIVALENT[name]
    (OUT / "index.json").write_text(json.dumps(meta, indent=1))
    print(f"{len(meta)} mutants written, {bad} patterns not found")
    return 1 if bad else 0


if __name__ == "__main__":
    sys.exit(main())
