#!/usr/bin/env python3
"""Mutant audit (DESIGN 7.2): applies each selftest/mutants/*.diff to a scratch copy of /repo, checks that
the upstream suite (with the numpy shim) and the pinned baseline still pass there, and runs the quick tier
of the owning checks against the scratch copy. Results -> selftest/RESULTS.md / results.json.

usage: run_mutants.py [--jobs N] [--only SUBSTR] [--skip-tests] [--tier quick]"""
import argparse
import concurrent.futures as cf
import json
import os
import pathlib
import shutil
import subprocess
import time

HERE = pathlib.Path(__file__).resolve().parent
VERIF = HERE.parent
MUT = HERE / "mutants"


def sh(cmd, cwd=None, env=None, timeout=3600):
    p = subprocess.run(cmd, shell=True, cwd=cwd, env=env, capture_output=True, text=True, timeout=timeout)
    return p.returncode, p.stdout + p.stderr


def one(name, props, args):
    t0 = time.time()
    m = pathlib.Path(f"/dev/shm/mut-{os.getpid()}-{name}")
    shutil.rmtree(m, ignore_errors=True)
    sh(f"rsync -a --exclude .git /repo/ {m}/")
    rc, out = sh(f"patch -p1 -s < {MUT / (name + '.diff')}", cwd=m)
    res = {"name": name, "properties": props, "applies": rc == 0}
    if rc != 0:
        shutil.rmtree(m, ignore_errors=True)
        return res
    env = dict(os.environ, PYTHONDONTWRITEBYTECODE="1")
    if not args.skip_tests:
        e2 = dict(env, PYTHONPATH=f"{VERIF}/vlib/shim:{m}/src")
        rc, out = sh("/venv/bin/python -m pytest -q -x -p no:cacheprovider --timeout=900 --ignore=tests/zz_docs 2>&1 | tail -1", cwd=m, env=e2)
        res["upstream_suite"] = out.strip().splitlines()[-1] if out.strip() else ""
        res["upstream_pass"] = " failed" not in out and " error" not in out and "passed" in out
        e3 = dict(env, PYTHONPATH=f"{m}/src")
        rc, out = sh("/venv/bin/python -m pytest -q -p no:cacheprovider --timeout=900 --continue-on-collection-errors 2>&1 | tail -1", cwd=m, env=e3)
        res["baseline"] = out.strip().splitlines()[-1] if out.strip() else ""
        res["baseline_pass"] = "66 passed" in out
    res["checks"] = {}
    for pid in props:
        e4 = dict(env, VERIF_REPO=str(m), VERIF_REPLAYS=str(m / "replays"))
        rc, out = sh(f"{VERIF}/check {pid} --tier {args.tier} --no-evidence", env=e4, timeout=3600)
        sigs = [l.split("[", 1)[1].split("]", 1)[0] for l in out.splitlines() if l.startswith("--- witness [")]
        res["checks"][pid] = {"rc": rc, "fired": rc == 1 and "VIOLATION property=" + pid in out, "signatures": sigs[:4],
                              "summary": next((l for l in out.splitlines()[::-1] if l.startswith(pid + " tier")), "")}
    res["caught"] = any(c["fired"] for c in res["checks"].values())
    res["wall_s"] = round(time.time() - t0, 1)
    shutil.rmtree(m, ignore_errors=True)
    sh("rm -rf .hypothesis", cwd="/dev/shm")
    return res


def main():
    ap = argparse.ArgumentParser()
    ap.add_argument("--jobs", type=int, default=2)
    ap.add_argument("--only", default="")
    ap.add_argument("--skip-tests", action="store_true")
    ap.add_argument("--tier", default="quick")
    args = ap.parse_args()
    index = json.loads((MUT / "index.json").read_text())
    todo = [(n, v["properties"]) for n, v in sorted(index.items()) if args.only in n]
    results = []
    with cf.ThreadPoolExecutor(args.jobs) as ex:
        futs = {ex.submit(one, n, p, args): n for n, p in todo}
        for f in cf.as_completed(futs):
            r = f.result()
            results.append(r)
            print(f"{'CAUGHT' if r.get('caught') else 'MISSED' if r.get('applies') else 'NOAPPLY'} {r['name']} "
                  f"tests={'ok' if r.get('upstream_pass') else r.get('upstream_suite', '-')} "
                  f"{ {k: v['signatures'][:1] for k, v in r.get('checks', {}).items()} } {r.get('wall_s')}s", flush=True)
    results.sort(key=lambda r: r["name"])
    prev = {}
    if (HERE / "results.json").exists() and args.only:
        prev = {r["name"]: r for r in json.loads((HERE / "results.json").read_text())}
    for r in results:
        prev[r["name"]] = r
    allr = sorted(prev.values(), key=lambda r: r["name"]) if args.only else results
    (HERE / "results.json").write_text(json.dumps(allr, indent=1))
    lines = ["# Mutant audit", "",
             "Each row: a small change applied to a scratch copy of /repo (diff in `mutants/`), whether the upstream suite "
             "(285 tests, with the numpy shim) and the pinned 66-test baseline still pass with it, and whether the quick tier "
             "of the owning check(s) reported a VIOLATION. `revert_*`/`*_revert_*` mutants undo one of the `fix:` commits.", "",
             "| mutant | property | upstream suite passes | baseline passes | caught by | first signature |", "|---|---|---|---|---|---|"]
    for r in allr:
        fired = [k for k, v in r.get("checks", {}).items() if v["fired"]]
        sig = next((v["signatures"][0] for v in r.get("checks", {}).values() if v["signatures"]), "")
        eq = index.get(r["name"], {}).get("equivalent")
        up = "not re-run in this audit (see results_first_run.json)" if "upstream_pass" not in r else ('yes' if r.get('upstream_pass') else 'NO: ' + str(r.get('upstream_suite', ''))[:40])
        bl = "not re-run" if "baseline_pass" not in r else ('yes' if r.get('baseline_pass') else 'NO')
        lines.append(f"| {r['name']} | {','.join(r['properties'])} | {up} | "
                     f"{bl} | {','.join(fired) or ('not caught: equivalent (' + eq + ')' if eq else '**MISSED**')} | {sig[:70]} |")
    n = len(allr)
    c = sum(1 for r in allr if r.get("caught"))
    e = sum(1 for r in allr if not r.get("caught") and index.get(r["name"], {}).get("equivalent"))
    lines += ["", f"caught {c} of {n}; {e} not caught are argued to be equivalent; {n - c - e} missed"]
    (HERE / "RESULTS.md").write_text("\n".join(lines) + "\n")
    print(f"caught {c} of {n}")


if __name__ == "__main__":
    main()
