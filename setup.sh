#!/bin/bash
# Offline setup: put icontract (+deps) beside the repo's interpreter in .deps, smoke-test imports.
set -e
here=$(cd "$(dirname "$0")" && pwd)
if [ ! -d "$here/.deps/icontract" ]; then
  PIP_NO_INDEX=1 /venv/bin/pip install -q --no-index --find-links /opt/veriftools/wheels \
      --target "$here/.deps" icontract deal >/dev/null 2>&1 || \
  PIP_NO_INDEX=1 /venv/bin/pip install -q --no-index --find-links /opt/veriftools/wheels \
      --target "$here/.deps" icontract
fi
cd /dev/shm 2>/dev/null || cd /tmp
PYTHONPATH="$here/vlib/shim:$here:$here/.deps:${VERIF_REPO:-/repo}/src" PYTHONDONTWRITEBYTECODE=1 \
  /venv/bin/python -c "import icontract, metador_core.container, metador_core.ih5.container; print('setup ok')"
rm -rf .hypothesis 2>/dev/null || true
