"""File ledger, directory monitor and Python-level open audit (DESIGN 3.3)."""
from __future__ import annotations

import hashlib
import os
import sys
from pathlib import Path


def file_sig(p):
    p = Path(p)
    st = p.stat()
    return [hashlib.sha256(p.read_bytes()).hexdigest(), st.st_size, st.st_ino]


def dir_state(d) -> dict:
    """name -> [sha256, size, inode] for every regular file of the directory (files of sub-directories under their relative path)."""
    d = Path(d)
    return {q.relative_to(d).as_posix(): file_sig(q) for q in sorted(d.rglob("*")) if q.is_file() and not q.is_symlink()}


def first_diff_offset(a: bytes, b: bytes):
    n = min(len(a), len(b))
    for i in range(n):
        if a[i] != b[i]:
            return i
    return n if len(a) != len(b) else None


class Ledger:
    """Committed files must never change: (sha256, size, inode) recorded at commit time."""

    def __init__(self):
        self.entries: dict[str, list] = {}
        self.bytes: dict[str, bytes] = {}
        self.comparisons = 0

    def add(self, path):
        p = str(path)
        if p not in self.entries and os.path.exists(p):
            self.entries[p] = file_sig(p)
            self.bytes[p] = Path(p).read_bytes()

    def forget(self, path):
        self.entries.pop(str(path), None)
        self.bytes.pop(str(path), None)

    def check(self):
        """Return list of (path, what) for every committed file that is not as recorded."""
        bad = []
        for p, sig in self.entries.items():
            self.comparisons += 1
            if not os.path.exists(p):
                bad.append((p, "vanished"))
                continue
            now = file_sig(p)
            if now[0] != sig[0] or now[1] != sig[1]:
                off = first_diff_offset(self.bytes[p], Path(p).read_bytes())
                bad.append((p, f"content changed (size {sig[1]}->{now[1]}, first differing offset {off})"))
            elif now[2] != sig[2]:
                bad.append((p, "replaced by another file with equal content (inode changed)"))
        return bad


# ---- Python-level open audit: diagnostic evidence only (the property speaks about bytes) ----

_watch: set[str] = set()
_log: list = []
_installed = False


def _hook(event, args):
    if event == "open" and _watch:
        path, mode = args[0], args[1]
        try:
            sp = os.fspath(path)
        except TypeError:
            return
        if isinstance(sp, bytes):
            sp = sp.decode(errors="replace")
        if isinstance(mode, str) and any(c in mode for c in "wa+x") and os.path.abspath(sp) in _watch:
            _log.append((sp, mode))


def audit_install():
    global _installed
    if not _installed:
        sys.addaudithook(_hook)
        _installed = True


def audit_watch(paths):
    _watch.clear()
    _watch.update(os.path.abspath(str(p)) for p in paths)


def audit_drain():
    out = list(_log)
    _log.clear()
    return out
