import numpy as _np
for _a, _b in (("cumproduct", "cumprod"), ("bool8", "bool_")):
    if not hasattr(_np, _a):
        setattr(_np, _a, getattr(_np, _b))
