"""Greedy delta-debugging of operation histories."""
from __future__ import annotations


def shrink_list(items, still_fails, max_trials=400):
    """Return a (locally) minimal sub-list for which still_fails(sublist) is truthy."""
    cur = list(items)
    trials = 0
    chunk = max(1, len(cur) // 2)
    while chunk >= 1 and trials < max_trials:
        i = 0
        progressed = False
        while i < len(cur) and trials < max_trials:
            cand = cur[:i] + cur[i + chunk:]
            trials += 1
            if cand and still_fails(cand):
                cur = cand
                progressed = True
            else:
                i += chunk
        if chunk == 1 and not progressed:
            break
        chunk = max(1, chunk // 2) if chunk > 1 else (1 if progressed else 0)
    return cur
