"""Shared driver for the container-level checks (C06, C07, C08b, C20): run, shrink, report."""
from __future__ import annotations

import random

from . import conteng as CE
from .shrink import shrink_list


def run_case(acc, case, monitors, record=True):
    d = acc.newdir("ce")
    try:
        return CE.run_history(acc, d, case["driver"], case["seed"], case.get("nops", 0), monitors,
                              ops=case.get("ops"), record=record)
    finally:
        acc.rmdir(d, collect=False)


def check_case(acc, case, monitors):
    done, mm = run_case(acc, case, monitors)
    if mm is None:
        nmeta = sum(1 for o in done if o[0] == "meta")
        nstruct = sum(1 for o in done if o[0] in ("copy2", "copyobj", "copyfrom", "move", "del", "copy") or (o[0] == "at"))
        acc.case([case["driver"], done], nontrivial=nmeta >= 2 and nstruct >= 1)
        if acc.evaluations % 120 == 1:
            acc.sample({"driver": case["driver"], "ops": done[:14]})
        return
    kind = mm[0]
    acc.count("mismatch." + kind)
    if acc.counters["mismatch." + kind] > 2 or len(acc.violations) >= 8:
        return

    def fails(ops):
        _, m = run_case(acc, {**case, "ops": ops}, monitors, record=False)
        return m is not None and m[0] == kind

    small = shrink_list(done, fails, max_trials=120)
    _, m2 = run_case(acc, {**case, "ops": small}, monitors, record=False)
    m2 = m2 or mm
    acc.violation(f"{m2[0]}:{case['driver']}", f"{m2[1]} (driver {case['driver']}; shrunk to {len(small)} ops: {small})",
                  {"driver": case["driver"], "seed": case["seed"], "ops": small})


def make_units(tier, seed, nquick, nthorough, per=10, drivers=("h5", "ih5", "ih5mf"), weights=(4, 4, 1)):
    n = nquick if tier == "quick" else nthorough
    pool = [d for d, w in zip(drivers, weights) for _ in range(w)]
    return [{"seed": seed * 50021 + i, "n": per, "driver": pool[(i // per) % len(pool)]} for i in range(0, n, per)]


def run_units(u, acc, monitors, nops=(6, 25)):
    rng = random.Random(u["seed"])
    for j in range(u["n"]):
        check_case(acc, {"driver": u["driver"], "seed": u["seed"] * 131 + j, "nops": rng.randint(*nops)}, monitors)
