"""sys.monitoring based reach measurement and logical step budget (DESIGN 3.5 / 3.6)."""
from __future__ import annotations

import ast
import sys
from pathlib import Path

mon = sys.monitoring
_REACH_ID, _BUDGET_ID = 3, 4
_files: set[str] = set()
_hits: dict[str, set] = {}


def _line(code, ln):
    f = code.co_filename
    if f in _files:
        _hits[f].add(ln)
    return mon.DISABLE  # each location reported once


def start(files):
    global _files
    _files = set(files)
    for f in _files:
        _hits.setdefault(f, set())
    try:
        mon.use_tool_id(_REACH_ID, "verif-reach")
    except ValueError:
        pass
    mon.register_callback(_REACH_ID, mon.events.LINE, _line)
    mon.set_events(_REACH_ID, mon.events.LINE)


def stop():
    mon.set_events(_REACH_ID, 0)
    return {f: sorted(v) for f, v in _hits.items()}


def summarise(reach: dict, repo: Path):
    """Per anchored file: lines hit per function (lenient; file level if parsing fails)."""
    out = {}
    for f, lines in reach.items():
        lines = set(lines)
        rel = str(Path(f).relative_to(repo)) if str(f).startswith(str(repo)) else f
        entry = {"lines_hit": len(lines)}
        try:
            tree = ast.parse(Path(f).read_text())
            funcs = {}
            for node in ast.walk(tree):
                if isinstance(node, (ast.FunctionDef, ast.AsyncFunctionDef)):
                    body = range(node.body[0].lineno, node.end_lineno + 1)
                    n = sum(1 for l in body if l in lines)
                    funcs[f"{node.name}@{node.lineno}"] = n
            entry["functions_reached"] = sum(1 for v in funcs.values() if v)
            entry["functions_total"] = len(funcs)
            entry["unreached_functions"] = sorted(k for k, v in funcs.items() if not v)[:40]
        except Exception as e:  # pragma: no cover
            entry["note"] = f"function map unavailable: {e}"
        out[rel] = entry
    return out


# ---------------------------------------------------------------- step budget


class BudgetExceeded(BaseException):
    """Raised from the monitoring callback when a single API call exceeds its step budget."""


class StepBudget:
    """Counts PY_START events of code objects under `root` while active."""

    def __init__(self, root: str):
        self.root = root
        self.n = 0
        self.limit = None
        try:
            mon.use_tool_id(_BUDGET_ID, "verif-budget")
        except ValueError:
            pass
        mon.register_callback(_BUDGET_ID, mon.events.PY_START, self._cb)

    def _cb(self, code, off):
        if not code.co_filename.startswith(self.root):
            return mon.DISABLE
        self.n += 1
        if self.limit is not None and self.n > self.limit:
            self.limit = None
            raise BudgetExceeded()

    def __call__(self, limit: int):
        self._pending = limit
        return self

    def __enter__(self):
        self.n = 0
        self.limit = self._pending
        mon.set_events(_BUDGET_ID, mon.events.PY_START)
        return self

    def __exit__(self, *a):
        mon.set_events(_BUDGET_ID, 0)
        self.limit = None
        return False
