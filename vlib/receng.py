"""Record-level helpers shared by the IH5 checks (C02-C05, C10, C11)."""
from __future__ import annotations

import gc
from pathlib import Path

from metador_core.ih5.container import IH5MFRecord, IH5Record

from . import h5eng as E
from .opgen import DataGen

CLS = {"IH5Record": IH5Record, "IH5MFRecord": IH5MFRecord}


def sidecar(path) -> Path:
    return Path(str(path) + IH5MFRecord.MANIFEST_EXT)


def fill(rec, gen: DataGen, n: int, log=None):
    """Apply n generated data operations (guided by the record's own view)."""
    done = 0
    for _ in range(n):
        op = gen.next(rec)
        if op[0] in ("commit", "reopen"):
            continue
        try:
            E.apply_op(rec, op)
            s = "ok"
            done += 1
        except Exception as e:
            s = "fail:" + type(e).__name__
        if log is not None:
            log.append(op + [s])
    return done


def build_record(rng, d, name, cls, ncont, ops_per=(2, 7), exts_prob=0.0, keys=None, commit_last=True):
    """Create a record with `ncont` containers from a random history.

    Returns (record, ops_log, commits) where commits[k] = {"files": [...], "dump": view at commit k}.
    """
    d = Path(d)
    rec = cls(d / name, "w")
    gen = DataGen(rng, keys=keys, boundaries=False, allow_self_copy=False)
    log, commits = [], []
    for c in range(ncont):
        if c == 0:
            rec["seed/x"] = 1
            rec.attrs["root-attr"] = "r"
            log += [["set", "seed/x", ["int", 1], "ok"], ["sattr", "/", "root-attr", ["str", "r"], "ok"]]
        fill(rec, gen, rng.randint(*ops_per), log)
        if c == ncont - 1 and not commit_last:
            break
        kw = {}
        if cls is IH5MFRecord and rng.random() < exts_prob:
            kw["manifest_exts"] = {"ext": {"n": c, "tag": f"t{rng.randint(0, 99)}"}}
        rec.commit_patch(**kw)
        log.append(["commit", kw.get("manifest_exts")])
        commits.append({"files": [str(p) for p in rec.ih5_files], "dump": E.dump_walk(rec),
                        "exts": kw.get("manifest_exts")})
        if c < ncont - 1:
            rec.create_patch()
            log.append(["create_patch"])
    return rec, log, commits


def try_open(cls, what, mode="r", **kw):
    """Open; returns (record, None) or (None, exception). Collects leaked handles on failure."""
    try:
        return cls(what, mode, **kw), None
    except Exception as e:
        gc.collect()
        return None, e


def safe_close(rec, commit=True):
    try:
        if rec is not None:
            rec.close(commit=commit) if commit is not None else rec.close()
    except Exception:
        pass


def disk_ublock(path):
    """Independent parser of the on-disk user block (magic, size, JSON up to the first NUL)."""
    import json
    with open(path, "rb") as f:
        head = f.read(1024)
    lines = head.split(b"\n", 2)
    if len(lines) != 3 or lines[0] != b"ih5_v01":
        raise ValueError("not an IH5 user block")
    js = lines[2].split(b"\x00", 1)[0]
    return json.loads(js.decode("utf-8"))


def is_committed_on_disk(path) -> bool:
    try:
        return disk_ublock(path).get("hdf5_hashsum") is not None
    except Exception:
        return False
