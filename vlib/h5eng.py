"""Data-level engine shared by the IH5 checks: value specs, operations, dumps, subjects.

Operations are JSON-able lists so that histories can be written to replay files:

  ["set", path, valspec]        f[path] = value
  ["grp", path]                 f.create_group(path)
  ["rgrp", path]                f.require_group(path)
  ["del", path]                 del f[path]
  ["sattr", path, key, valspec] f[path].attrs[key] = value
  ["dattr", path, key]          del f[path].attrs[key]
  ["copy", src, dst]            f.copy(src, dst)
  ["move", src, dst]            f.move(src, dst)
  ["cds", path, token|None, kw] create_dataset(path, data=..., **kw) with kw from the documented subset (shape, dtype, compression, compression_opts)
  ["at", grouppath, op]         the same operation issued from the sub-group handle f[grouppath]
  ["commit"]                    IH5 only: commit_patch + create_patch (a patch boundary)
  ["reopen", mode]              close (commits) and reopen ("r+" / "a")

The reference for "a single plain HDF5-like tree" is literally a plain h5py.File.
"""
from __future__ import annotations

import gc
import os
from pathlib import Path

import h5py
import numpy as np

import metador_core
from metador_core.ih5.container import IH5MFRecord, IH5Record

from .reach import BudgetExceeded, StepBudget

ROOT = os.path.dirname(metador_core.__file__)
BUDGET = StepBudget(ROOT)


# ------------------------------------------------------------------ non-termination guard
# Fast path: no per-call monitoring, only a CPU-time alarm (ITIMER_VIRTUAL). When it fires the
# caller re-runs the case under the *logical* step budget (reach.StepBudget), and only that
# deterministic re-run produces a verdict; the alarm itself never does.

import signal


class CpuAlarm(BaseException):
    pass


def _on_alarm(signum, frame):
    raise CpuAlarm()


signal.signal(signal.SIGVTALRM, _on_alarm)


class cpu_guard:
    def __init__(self, seconds=4.0):
        self.s = seconds

    def __enter__(self):
        signal.setitimer(signal.ITIMER_VIRTUAL, self.s)

    def __exit__(self, *a):
        signal.setitimer(signal.ITIMER_VIRTUAL, 0)
        return False


# ------------------------------------------------------------------ values


def mkval(spec):
    k = spec[0]
    if k == "int":
        return spec[1]
    if k == "float":
        return float(spec[1])
    if k == "str":
        return spec[1]
    if k == "bytes":
        return bytes.fromhex(spec[1])
    if k == "void":
        return np.void(bytes.fromhex(spec[1]))
    if k == "arr":
        return np.array(spec[1])
    if k == "barr":
        return np.array([bytes.fromhex(x) for x in spec[1]])
    if k == "bool":
        return bool(spec[1])
    if k == "empty":
        return h5py.Empty("i4")
    if k == "unstorable":
        return object()  # rejected by HDF5 itself: the operation must fail WITHOUT any effect on both sides
    raise ValueError(spec)


def token(rng, i: int):
    """A value that names the operation (index i) which wrote it."""
    r = rng.random()
    if r < 0.05:  # one-byte opaque values (same shape/dtype as the deletion marker, but legal), marker-like two-byte values
        return ["void", rng.choice(["61", "00", "ff", "7e", "7f00", "007f", "7f7f", "1a"])]
    if r < 0.07:
        return ["unstorable"]
    if r < 0.14:
        # values off the beaten track: byte strings that are not UTF-8 / look like the marker, non-ASCII text, booleans, extreme and
        # negative numbers, 2-D / float / boolean / empty / byte-string arrays
        return rng.choice([["bytes", "636166e9"], ["bytes", "fffe" + (b"%d" % i).hex()], ["bytes", "7f"], ["bytes", "c328"], ["str", f"h\u00e4\u00df{i}"], ["str", f"\u65e5\u672c{i}"],
                           ["str", ""], ["bool", True], ["bool", False], ["int", -i - 1], ["int", 2 ** 63 - 1], ["int", -(2 ** 63)], ["float", float("inf")],
                           ["arr", [[i, 1], [2, 3]]], ["arr", [0.5, i + 0.25]], ["arr", [True, False]], ["arr", []], ["barr", ["61", "6263", "ff"]]])
    if r < 0.35:
        return ["int", 1000 + i]
    if r < 0.55:
        return ["str", f"v{i}"]
    if r < 0.68:
        return ["bytes", (b"b%d" % i).hex()]
    if r < 0.80:
        return ["void", (b"\x00w%d\x00" % i).hex()]
    if r < 0.92:
        return ["arr", [i, i + 1, i + 2]]
    if r < 0.96:
        return ["float", i + 0.5]
    return ["empty"]


def norm(v):
    """Normalise a value read from a dataset or attribute."""
    if isinstance(v, h5py.Empty):
        return ["Empty", str(v.dtype)]
    a = np.asarray(v)
    if a.dtype.kind == "O":
        return ["obj", list(a.shape), repr(a.tolist())]
    return [a.dtype.str, list(a.shape), a.tobytes().hex()]


# ------------------------------------------------------------------ operations


def apply_op(f, op):
    """Apply a data operation to an h5py-like group/file object."""
    k = op[0]
    if k == "at":
        g, sub = f[op[1]], op[2]
        npath = 2 if sub[0] in ("copy", "move") else 1
        if isinstance(g, h5py.Group) and any(str(x).startswith("/") for x in sub[1:1 + npath]):
            # plain h5py reference: absolute paths mean "from the root" whatever the handle; issue the call there with all
            # paths made absolute (HDF5 1.12 fails with 'message type not found' when H5Ocopy has to create missing parents
            # of an absolute destination relative to a non-root location -- a library quirk, not tree semantics)
            sub = [sub[0]] + [abspath(g.name, x) for x in sub[1:1 + npath]] + list(sub[1 + npath:])
            g = g.file
        return apply_op(g, sub)
    if k == "set":
        f[op[1]] = mkval(op[2])
    elif k == "grp":
        f.create_group(op[1])
    elif k == "rgrp":
        f.require_group(op[1])
    elif k == "del":
        del f[op[1]]
    elif k == "sattr":
        f[op[1]].attrs[op[2]] = mkval(op[3])
    elif k == "dattr":
        del f[op[1]].attrs[op[2]]
    elif k == "cds":
        kw = {a: tuple(b) if isinstance(b, list) else b for a, b in op[3].items()}
        f.create_dataset(op[1], data=mkval(op[2]) if op[2] is not None else None, **kw)
    elif k == "cip":
        n = f[op[1]]
        if not is_ds(n):
            raise TypeError("not a dataset")
        if hasattr(n, "copy_into_patch"):
            try:
                n.copy_into_patch()
            except ValueError:
                pass  # already in the latest container / no patch open: nothing to do
    elif k == "copy":
        f.copy(op[1], op[2])
    elif k == "move":
        f.move(op[1], op[2])
    else:
        raise ValueError(f"unknown op {op}")


def abspath(base: str, p: str) -> str:
    if p.startswith("/"):
        return "/" + p.strip("/")
    b = base.strip("/")
    return "/" + (b + "/" if b else "") + p.strip("/")


def op_paths(op, base="/"):
    """Absolute (src, dst) paths touched by the op (for exclusion rules)."""
    if op[0] == "at":
        return op_paths(op[2], abspath("/", op[1]))
    if op[0] in ("copy", "move"):
        return abspath(base, op[1]), abspath(base, op[2])
    if len(op) > 1:
        return (abspath(base, op[1]),)
    return ()


def inner(op):
    return inner(op[2]) if op[0] == "at" else op


def is_sub(src: str, dst: str) -> bool:
    return dst == src or dst.startswith(src.rstrip("/") + "/")


# ------------------------------------------------------------------ dumps


def _attrs(node):
    return {k: norm(v) for k, v in node.attrs.items()}


def is_ds(node) -> bool:
    return hasattr(node, "ndim")


def dump_walk(root) -> dict:
    """Walker (a): recursive keys() + [] ."""
    out = {"/": ["G", _attrs(root), sorted(root.keys())]}

    def rec(g, pref):
        for k in g.keys():
            n = g[k]
            p = f"{pref}/{k}"
            if is_ds(n):
                out[p] = ["D", _attrs(n), norm(n[()])]
            else:
                out[p] = ["G", _attrs(n), sorted(n.keys())]
                rec(n, p)

    rec(root, "")
    return out


def dump_visit(root) -> dict:
    """Walker (b): visititems."""
    out = {"/": ["G", _attrs(root), None]}

    def f(name, n):
        p = "/" + name
        if is_ds(n):
            out[p] = ["D", _attrs(n), norm(n[()])]
        else:
            out[p] = ["G", _attrs(n), None]

    root.visititems(f)
    return out


def probes(root, paths, absent=(), visit_stop=True):
    """len/in/lookup observations beyond the dumps."""
    out = {}
    for p in paths:
        if p == "/":
            continue
        out["in:" + p] = p in root
        out["inrel:" + p] = p.lstrip("/") in root
        n = root[p]
        out["name:" + p] = n.name
        out["parent:" + p] = n.parent.name
        if not is_ds(n):
            out["len:" + p] = len(n)
            # every listing form of the group protocol
            ks = sorted(n.keys())
            out["listing:" + p] = [ks == sorted(k for k in n), ks == sorted(k for k, _ in n.items()), len(list(n.values())) == len(ks),
                                   all(n.get(k) is not None for k in ks)]
        else:
            # partial reads and the shape information of the dataset protocol
            out["ndim:" + p] = n.ndim
            out["ellipsis:" + p] = norm(n[...])
            if n.ndim and not isinstance(n[()], h5py.Empty) and len(n[()]):
                out["first:" + p] = norm(n[0])
                out["slice:" + p] = norm(n[1:])
        _attr_probes(out, p, n)
    _attr_probes(out, "/", root)
    out["len:/"] = len(root)
    # visit/visititems stop as soon as the callback returns something that is not None -- also falsy values
    for stopval in ((0, "", False, b"") if visit_stop else ()):
        seen = []

        def cb(name, node=None, _s=stopval, _seen=seen):
            _seen.append(name)
            return _s if len(_seen) == 2 else None
        out[f"visititems-stop:{stopval!r}"] = [repr(root.visititems(cb)), len(seen)]
        seen.clear()
        out[f"visit-stop:{stopval!r}"] = [repr(root.visit(cb)), len(seen)]
    for p in absent:
        out["in:" + p] = p in root
        out["get:" + p] = root.get(p) is None
    return out


def _attr_probes(out, p, n):
    """The mapping interface of attrs beyond items(): keys/iter/len/in/[]/get agree with each other."""
    a = n.attrs
    ks = sorted(a.keys())
    out["attrs:" + p] = [ks, sorted(k for k in a), len(a), [k in a for k in ks], [norm(a[k]) for k in ks], [norm(a.get(k)) for k in ks],
                         "zz-no-such" in a, a.get("zz-no-such") is None, a.get("zz-no-such", 5) == 5]


def full_dump(root, absent=(), probe_paths=None):
    """Both walkers must agree; returns (dump, probes). Raises WalkMismatch otherwise.

    probe_paths: restrict the len/in/lookup probes to these existing paths (None = all)."""
    a = dump_walk(root)
    b = dump_visit(root)
    a2 = {k: [v[0], v[1], (v[2] if v[0] == "D" else None)] for k, v in a.items()}
    if a2 != b:
        diff = sorted(k for k in set(a2) | set(b) if a2.get(k) != b.get(k))
        raise WalkMismatch(f"keys()/[] walker and visititems disagree at {diff[:4]}")
    pp = list(a.keys()) if probe_paths is None else [p for p in probe_paths if p in a]
    return a, probes(root, pp, absent, visit_stop=probe_paths is None)


class WalkMismatch(Exception):
    pass


def diff_dumps(da, dr):
    """Classify the first difference between subject dump and reference dump."""
    ka, kr = set(da), set(dr)
    if ka - kr:
        p = sorted(ka - kr)[0]
        return "extra-node", p, f"{p} visible in subject but absent in reference"
    if kr - ka:
        p = sorted(kr - ka)[0]
        return "missing-node", p, f"{p} present in reference but hidden in subject"
    for p in sorted(ka):
        a, r = da[p], dr[p]
        if a[0] != r[0]:
            return "kind", p, f"{p}: subject {a[0]} reference {r[0]}"
        if a[1] != r[1]:
            xa, xr = set(a[1]), set(r[1])
            if xa - xr:
                return "extra-attr", p, f"{p}: attribute(s) {sorted(xa - xr)} only in subject"
            if xr - xa:
                return "missing-attr", p, f"{p}: attribute(s) {sorted(xr - xa)} missing in subject"
            k = next(k for k in a[1] if a[1][k] != r[1][k])
            return "attr-value", p, f"{p}@{k}: subject {a[1][k]} reference {r[1][k]}"
        if a[2] != r[2]:
            return ("value" if a[0] == "D" else "children"), p, f"{p}: subject {a[2]} reference {r[2]}"
    return None


# ------------------------------------------------------------------ subjects


class H5Subject:
    """Plain h5py.File: the single tree."""

    def __init__(self, d: Path, name="ref"):
        self.path = Path(d) / f"{name}.h5"
        self.f = h5py.File(self.path, "w")

    root = property(lambda s: s.f)

    def apply(self, op):
        if op[0] == "commit":
            return "ok"
        if op[0] == "reopen":
            self.f.close()
            self.f = h5py.File(self.path, "r+")
            return "ok"
        try:
            apply_op(self.f, op)
            return "ok"
        except Exception as e:
            return "fail:" + type(e).__name__

    def close(self):
        try:
            self.f.close()
        except Exception:
            pass


class IH5Subject:
    """IH5Record / IH5MFRecord with patch boundaries."""

    def __init__(self, d: Path, name="rec", cls=IH5Record, boundaries=True):
        self.dir, self.name, self.cls, self.boundaries = Path(d), name, cls, boundaries
        self.f = cls(self.dir / name, "w")
        self.commits = 0

    root = property(lambda s: s.f)

    def apply(self, op, budget=None):
        try:
            if op[0] == "commit":
                if self.boundaries:
                    self.f.commit_patch()
                    self.f.create_patch()
                    self.commits += 1
                return "ok"
            if op[0] == "reopen":
                if self.boundaries:
                    self.f.close()
                    self.f = self.cls(self.dir / self.name, op[1])
                    self.commits += 1
                return "ok"
            if budget:  # strict mode: logical step budget decides
                with BUDGET(budget):
                    apply_op(self.f, op)
            else:  # fast mode: CPU alarm only raises suspicion
                with cpu_guard():
                    apply_op(self.f, op)
            return "ok"
        except BudgetExceeded:
            return "nonterminating"
        except CpuAlarm:
            return "suspect"
        except Exception as e:
            return "fail:" + type(e).__name__

    def close(self, commit=True):
        try:
            self.f.close(commit=commit) if hasattr(self.f, "_closed") else self.f.close()
        except Exception:
            pass


def st(status: str) -> str:
    return status.split(":")[0]
