"""Runs the repository's own test-suite as one more workload under the ledger (C02) and TOC (C06) monitors of
vlib.pytest_monitors. The tests' own assertions are not used; only what the monitors saw counts."""
from __future__ import annotations

import json
import os
import shutil
import subprocess
import sys
from pathlib import Path


def run(acc, kind: str, signature_prefix: str):
    repo = Path(os.environ.get("VERIF_REPO", "/repo"))
    d = Path(acc.newdir("pyt"))
    try:
        if not (repo / "tests").is_dir():
            acc.note("upstream tests not found: workload skipped")
            return
        shutil.copytree(repo / "tests", d / "tests")
        for f in ("pyproject.toml",):
            if (repo / f).exists():
                shutil.copy(repo / f, d / f)
        rep = d / "report.json"
        env = dict(os.environ, VERIF_PYTEST_REPORT=str(rep), PYTHONDONTWRITEBYTECODE="1")
        try:
            p = subprocess.run([sys.executable, "-m", "pytest", "-q", "-x" if False else "-q", "-p", "no:cacheprovider", "-p", "vlib.pytest_monitors",
                                "--timeout=600", "--ignore=tests/zz_docs", "tests"], cwd=d, env=env, capture_output=True, text=True, timeout=900)
        except subprocess.TimeoutExpired:
            acc.note("upstream test workload timed out (inconclusive for this workload only)")
            return
        if not rep.exists():
            acc.note(f"upstream test workload wrote no report: {p.stdout[-200:]}")
            return
        r = json.loads(rep.read_text())
        acc.count("upstream_tests_run_under_monitors", r.get("tests", 0))
        acc.count("upstream.ledger_checks", r.get("ledger_checks", 0))
        acc.count("upstream.toc_scans", r.get("toc_scans", 0))
        acc.count("upstream.files_tampered_by_tests_excluded", r.get("tampered_by_test", 0))
        for k, v in r.get("calls", {}).items():
            acc.count(f"upstream.calls.{k}", v)
        acc.case(["upstream-suite", kind], nontrivial=True)
        for f in r.get("findings", []):
            if f["kind"] == "harness":
                acc.note("pytest monitors could not be installed: " + f["detail"][-200:])
            elif f["kind"] == kind:
                acc.violation(f"{signature_prefix}:{f['detail'].split(':')[0] if kind == 'toc' else 'committed-file-changed'}",
                              f"while running upstream test {f['test']}: {f['detail']}", {"kind": "pytest", "test": f["test"]})
    finally:
        acc.rmdir(d)
