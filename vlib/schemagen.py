"""Schema-class generator (field-type grammar) and type-directed instance generator with a
boundary value corpus. Used by C12, C13, C14."""
from __future__ import annotations

import datetime
import enum
import typing
from typing import Any, Dict, List, Literal, Optional, Set, Tuple, Union

import pydantic
from pydantic import AnyHttpUrl, BaseModel, Field
from typing_extensions import Annotated, get_args, get_origin

from metador_core.schema import MetadataSchema
from metador_core.schema.decorators import add_const_fields, make_mandatory
from metador_core.schema.ld import LDSchema, ld
from metador_core.schema.types import (
    Bool, Duration, Float, HashsumStr, Int, MimeTypeStr, NonEmptyStr, PintQuantity, PintUnit, QualHashsumStr, Str,
)


class Skip(Exception):
    """No generator for this type."""


DECLARED = {}  # generated class -> constants exactly as the generator declared them (own and inherited): the harness's own truth
ALL_CONSTS = {"@context", "@type"}  # names of constant fields of all classes seen (ignored on input, never "provided values")
SUBCLASSES = {}  # generated class -> list of generated subclasses (inheritance chains at nested positions)


class Color(str, enum.Enum):
    red = "red"
    green = "green"
    blue = "b l u e"


class Level(int, enum.Enum):
    low = 1
    high = 2


INTS = [0, 1, -1, 2, 7, 255, 2 ** 31, 2 ** 40, -(2 ** 63), 10 ** 18]
FLOATS = [0.0, 1.5, -2.5, 1e-300, 1e300, 3.141592653589793, 0.1, 2.0, -0.0, 1e16, 123456789.123456789]
STRS = ["a", "abc", " a ", "ünïcödé ß", "line1\nline2", '"quoted"', "{}", "null", "1", "true", "yes", "~", "1e3", "0x10",
        "2021-01-01", ": a", "- a", "#c", "a: b", "x" * 300, "\\n", "tab\tin", "'", "a#b", "[1]", "é", "0", "None", "NaN",
        "a b", "  lead", "trail  ", "%", "@id", "&a", "*a", "!tag", "|", ">", "a\r\nb", " "]
# beyond the Basic Multilingual Plane, Unicode line/paragraph separators, NEL, BOM, control characters, combining marks
STRS += ["\U0001F600", "a\U0001D11Eb", "x\u2028y", "x\u2029y", "x\x85y", "\ufeffbom", "bell\x07", "e\u0301", "\u200b", "\x7f"]
# long strings with runs of spaces (a YAML writer that folds lines loses them)
STRS += ["trail   " + "x" * 120 + "  abc", "a  b " * 30]
MIMES = ["text/plain", "application/json;charset=utf-8", "a/b", "image/png", "x-y/z.w+v;a=b;c=d"]
HASHES = ["00ff", "ABCDEF", "0", "deadbeef" * 8]
DURS = ["PT3H4M1S", "P1D", "PT0S", "PT0.5S", "P1W", "PT36H", "P1DT12H", "PT1M", "P1Y2M", "P1M", "-PT1H", "PT0.000001S", "P3DT0.25S"]
UNITS = ["meter", "meter * candela", "kilogram / second ** 2", "second", "1 / second", "dimensionless", "m", "km/h", "degC", "percent", "µm"]
QTYS = ["5 meter", "7.12 kilogram / second ** 2", "3", "1e3 m", "0 m", "-2.5 km/h", "1/3 s", "0.1 second", "10 percent", "1e-12 m"]
URLS = ["http://a.b", "https://example.org/x?y=1#z", "http://localhost:8080/", "https://ex.org/a%20b", "http://ex.org/ünï"]
DATES = ["2023-01-23", "1999-12-31", "2024-02-29"]
DATETIMES = ["2023-01-23T10:11:12", "2023-01-23T10:11:12+02:00", "2023-01-23T10:11:12.5Z"]
TIMES = ["10:11:12", "23:59:59.5"]
ANYS = [1, "s", [1, "a"], {"k": 1}, True, 2.5]


def _phantom_name(t):
    return getattr(t, "__name__", "")


def gen_value(hint, rng, depth=0):
    """A candidate input value for `hint` (validity is decided by constructing the model)."""
    o = get_origin(hint)
    if o is Annotated:
        return gen_value(get_args(hint)[0], rng, depth)
    if o is Union:
        args = [a for a in get_args(hint) if a is not type(None)]
        return gen_value(rng.choice(args), rng, depth)
    if o in (list, List):
        (a,) = get_args(hint) or (Any,)
        return [gen_value(a, rng, depth + 1) for _ in range(rng.choice([0, 1, 1, 2, 3]))]
    if o in (set, Set, frozenset):
        (a,) = get_args(hint) or (Any,)
        return [gen_value(a, rng, depth + 1) for _ in range(rng.choice([0, 1, 2, 3]))]
    if o in (tuple, Tuple):
        args = get_args(hint)
        if len(args) == 2 and args[1] is Ellipsis:
            return [gen_value(args[0], rng, depth + 1) for _ in range(rng.randint(0, 2))]
        return [gen_value(a, rng, depth + 1) for a in args]
    if o in (dict, Dict):
        return rng.choice([{}, {"k": 1}, {"a": {"b": [1, 2]}}])
    if o is Literal:
        return rng.choice(get_args(hint))
    if hint is Any or hint is object:
        return rng.choice(ANYS)
    if isinstance(hint, typing.ForwardRef) or isinstance(hint, str):
        raise Skip(hint)
    if not isinstance(hint, type):
        raise Skip(hint)
    if issubclass(hint, enum.Enum):
        m = rng.choice(list(hint))
        return m if rng.random() < 0.3 else m.value
    if issubclass(hint, bool):
        return rng.choice([True, False])
    if issubclass(hint, BaseModel):
        subs = SUBCLASSES.get(hint)
        if subs and rng.random() < 0.45:
            # an OBJECT of a subclass at a position typed with the parent class (kept as that subclass by pydantic)
            sub = rng.choice(subs)
            try:
                return sub.parse_obj(gen_model_dict(sub, rng, depth + 1))
            except Exception:
                pass
        return gen_model_dict(hint, rng, depth + 1)
    if issubclass(hint, Duration):
        if rng.random() < 0.3:  # an OBJECT as input (constructor / assignment), incl. calendar parts
            return rng.choice([hint(seconds=90), hint(days=1, hours=2), hint(years=1, months=2, days=3, seconds=4), hint(months=1),
                               hint(weeks=2), hint(seconds=0), hint(days=-1, seconds=0.5)])
        return rng.choice(DURS)
    if issubclass(hint, PintUnit):
        if rng.random() < 0.3:
            return hint(rng.choice(UNITS[:6]))
        return rng.choice(UNITS)
    if issubclass(hint, PintQuantity):
        if rng.random() < 0.3:
            return hint(rng.choice(QTYS[:6]))
        return rng.choice(QTYS)
    if issubclass(hint, pydantic.AnyUrl):
        return rng.choice(URLS)
    if issubclass(hint, datetime.datetime):
        return rng.choice(DATETIMES)
    if issubclass(hint, datetime.date):
        return rng.choice(DATES)
    if issubclass(hint, datetime.time):
        return rng.choice(TIMES)
    if issubclass(hint, int):
        return rng.choice(INTS)
    if issubclass(hint, float):
        return rng.choice(FLOATS)
    if issubclass(hint, str):
        n = _phantom_name(hint)
        if "Mime" in n:
            return rng.choice(MIMES)
        if "QualHashsum" in n:
            return rng.choice(["sha256:", "sha512:"]) + rng.choice(HASHES)
        if "Hashsum" in n:
            return rng.choice(HASHES)
        if "SemVer" in n:
            return rng.choice(["0.1.0", "1.22.333"])
        return rng.choice(STRS)
    if issubclass(hint, bytes):
        raise Skip(hint)
    raise Skip(hint)


_POPT = [0.5]  # probability of filling in an optional field (lowered by instances() while candidates keep being rejected)


def gen_model_dict(cls, rng, depth=0, p_optional=None):
    """Candidate dict for a pydantic model: required fields + some optional ones (missing = omitted)."""
    try:
        hints = typing.get_type_hints(cls, include_extras=True)
    except Exception:
        hints = {}
    consts = getattr(cls, "__constants__", {}) or {}
    out = {}
    if p_optional is None:
        p_optional = _POPT[0]
    for name, f in cls.__fields__.items():
        if name in consts:
            continue
        hint = hints.get(name, f.outer_type_)
        if not f.required and (depth > 2 or rng.random() > p_optional):
            continue
        if rng.random() < 0.04:
            # an explicit None: a value for optional fields (same as omitting it), no value for mandatory ones (the model decides)
            out[f.alias if rng.random() < 0.5 else name] = None
            continue
        try:
            v = gen_value(hint, rng, depth)
        except Skip:
            if f.required:
                raise
            continue
        out[f.alias if rng.random() < 0.5 else name] = v
    return out


# ------------------------------------------------------------------ class generator

ATOMS = [Bool, Int, Float, Str, NonEmptyStr, MimeTypeStr, HashsumStr, QualHashsumStr, Duration, PintUnit, PintQuantity,
         AnyHttpUrl, Color, Level, Literal["a", "b"], Literal[1, 2, 3], Literal["x"]]
HASHABLE = [Int, Str, NonEmptyStr, Color, Literal["a", "b"], Literal[1, 2, 3], AnyHttpUrl, HashsumStr]

_ctr = [0]


def gen_hint(rng, nested_pool, depth=0):
    r = rng.random()
    atom = rng.choice(ATOMS)
    if nested_pool and r < 0.15 and depth < 2:
        atom = rng.choice(nested_pool)
    r = rng.random()
    if r < 0.30:
        return Optional[atom]
    if r < 0.42:
        return List[atom]
    if r < 0.50:
        return Optional[List[atom]]
    if r < 0.60:
        return Set[rng.choice(HASHABLE)]
    if r < 0.66:
        return Optional[Set[rng.choice(HASHABLE)]]
    if r < 0.76:
        a, b = rng.sample([Int, Str, Bool, Float, Color], 2)
        return Optional[Union[a, b]] if rng.random() < 0.5 else Union[a, b]
    return atom


def gen_class(rng, nested_pool=(), base=None, tag="G", simple=False):
    """Create a MetadataSchema subclass from the grammar. Returns the class."""
    _ctr[0] += 1
    name = f"{tag}{_ctr[0]}"
    ann, ns = {}, {}
    base = base or (LDSchema if rng.random() < 0.15 and not simple else MetadataSchema)
    inherited = set(base.__fields__) if base not in (MetadataSchema, LDSchema) else set()
    for i in range(rng.randint(1, 6)):
        fname = f"f{_ctr[0]}_{i}"
        hint = gen_hint(rng, list(nested_pool))
        if rng.random() < 0.1 and not simple:
            hint = Annotated[hint, Field(alias=f"@{fname}")]
        elif rng.random() < 0.1 and get_origin(hint) is Union and type(None) in get_args(hint):
            pass
        ann[fname] = hint
    if rng.random() < 0.12 and not simple:  # self-recursive optional field
        ann["rec"] = Optional[name]
    ns["__annotations__"] = ann
    ns["__module__"] = __name__
    cls = type(MetadataSchema)(name, (base,), ns)
    globals()[name] = cls
    if simple and base not in (MetadataSchema, LDSchema):  # only the dedicated chain families put subclass objects at parent positions
        for b in base.__mro__:
            if b in (MetadataSchema, LDSchema):
                break
            SUBCLASSES.setdefault(b, []).append(cls)
    if "rec" in ann:
        cls.update_forward_refs(**{name: cls})
    declared = dict(DECLARED.get(base, {}))
    if rng.random() < 0.25 and not simple:
        # (falsy values are values too: 0, False, "", empty containers)
        consts = {f"c{_ctr[0]}": rng.choice([1, "const", [1, 2], {"k": "v"}, True, 0, False, "", [], {}, 0.0])}
        cls = add_const_fields(consts)(cls)
        ALL_CONSTS.update(consts)
        declared.update(consts)
    if rng.random() < 0.15 and issubclass(cls, LDSchema):
        extra = rng.choice([{}, {}, {"protected": False}, {"version": 0}, {"language": ""}, {"protected": True, "version": 1.1}, {"graph": []}])
        cls = ld(context="https://example.org/ctx", type=name, **extra)(cls)
        declared.update({"@context": "https://example.org/ctx", "@type": name, **{"@" + k: v for k, v in extra.items()}})
        ALL_CONSTS.update("@" + k for k in extra)
    if inherited and rng.random() < 0.3:
        opt = [n for n in inherited if not base.__fields__[n].required and n not in getattr(base, "__constants__", {})
               and n not in ann and n != "rec" and n != "id_"]
        if opt:
            try:
                cls = make_mandatory(rng.choice(opt))(cls)
            except Exception:
                pass
    DECLARED[cls] = declared
    return cls


def gen_family(rng, n=4, tag="G"):
    """A few classes: leaf classes, classes nesting them, and subclasses."""
    pool = []
    for _ in range(n):
        r = rng.random()
        if pool and r < 0.3:
            pool.append(gen_class(rng, pool[:2], base=rng.choice(pool), tag=tag))
        else:
            pool.append(gen_class(rng, pool[:3], tag=tag))
    return pool


def gen_chain_family(rng, tag="H"):
    """A (base), B(A), optionally C(B), and a holder class with single-valued and list positions typed A."""
    # flat classes without aliases/constants/recursion: a cross-class cast goes through dict(), which would re-key aliased
    # fields and turn nested models of the subclass into raw extra values of the parent partial (representation noise)
    A = gen_class(rng, (), tag=tag, simple=True)
    B = gen_class(rng, (), base=A, tag=tag, simple=True)
    fam = [A, B]
    if rng.random() < 0.4:
        fam.append(gen_class(rng, (), base=B, tag=tag, simple=True))
    _ctr[0] += 1
    name = f"{tag}{_ctr[0]}"
    ann = {"n": Optional[A], "m": A if rng.random() < 0.5 else Optional[B], "l": List[A], "k": Optional[Int]}
    H = type(MetadataSchema)(name, (MetadataSchema,), {"__annotations__": ann, "__module__": __name__})
    globals()[name] = H
    return fam + [H]


def jsonable(v):
    """Replace model objects inside candidate inputs by their JSON dicts."""
    if isinstance(v, BaseModel):
        return v.json_dict() if hasattr(v, "json_dict") else __import__("json").loads(v.json())
    if isinstance(v, dict):
        return {k: jsonable(x) for k, x in v.items()}
    if isinstance(v, (list, tuple)):
        return [jsonable(x) for x in v]
    return v


def instances(cls, rng, n, stats=None):
    """Yield up to n valid instances (validated by constructing the model)."""
    tries = 0
    got = 0
    streak = 0  # rejections since the last accepted candidate
    while got < n and tries < n * 6:
        tries += 1
        streak += 1
        try:
            # classes with many optional fields of demanding types: when candidates keep being rejected, fewer optional fields are
            # filled in (down to almost none) so that every class gets instances
            _POPT[0] = 0.5 if streak < 8 else (0.25 if streak < 20 else 0.08)
            try:
                d = gen_model_dict(cls, rng)
            finally:
                _POPT[0] = 0.5
            obj = cls.parse_obj(d)
            streak = 0
        except Skip:
            if stats is not None:
                stats["skip"] = stats.get("skip", 0) + 1
            return
        except Exception as e:
            if stats is not None:
                stats["rejected"] = stats.get("rejected", 0) + 1
                stats.setdefault("reject_kinds", set()).add(type(e).__name__)
            continue
        got += 1
        if stats is not None:
            stats["accepted"] = stats.get("accepted", 0) + 1
        yield d, obj
