"""Check runner: tiers, fork sharding, three-valued verdicts, evidence, replay, known findings.

A check module (checks/cNN_*.py) provides:

  PROPERTY, LEVEL, RULE            strings
  units(tier, seed) -> list        JSON-able work units (each one is run in some worker)
  run_unit(unit, acc)              drives the real code, feeds the accumulator
  replay(case, acc)                re-runs one recorded case (from a replay file)
  inconclusive(cov) -> [reasons]   optional; evaluated on the merged coverage
  ASSUMPTIONS                      optional list of strings
  ANCHORS                          optional list of repo-relative files for reach measurement
  WORKERS = {"quick": n, "thorough": n}   optional
"""
from __future__ import annotations

import argparse
import faulthandler
import gc
import hashlib
import importlib
import json
import os
import pkgutil
import shutil
import signal
import sys
import time
import traceback
from pathlib import Path

HOME = Path(os.environ.get("VERIF_HOME", Path(__file__).resolve().parent.parent))
REPO = Path(os.environ.get("VERIF_REPO", "/repo")).resolve()

EXIT_HELD, EXIT_VIOLATED, EXIT_INCONCLUSIVE = 0, 1, 2


def jhash(obj) -> str:
    return hashlib.sha1(
        json.dumps(obj, sort_keys=True, default=repr).encode()
    ).hexdigest()[:16]


class Acc:
    """Accumulator for one worker; merged by the parent."""

    MAX_SAMPLES = 4
    MAX_VIOLATIONS = 12

    def __init__(self, tier: str, seed: int, scratch: Path, shard: int = 0):
        self.tier, self.seed, self.scratch, self.shard = tier, seed, scratch, shard
        self.counters: dict[str, int] = {}
        self.evaluations = 0
        self.distinct: set[str] = set()
        self.sets: dict[str, set] = {}
        self.samples: list = []
        self.violations: list = []
        self.notes: list[str] = []
        self._dirctr = 0

    # -- bookkeeping
    def count(self, key: str, n: int = 1):
        self.counters[key] = self.counters.get(key, 0) + n

    def case(self, desc, nontrivial: bool = True):
        """Register one executed case; desc is a JSON-able canonical description."""
        self.evaluations += 1
        if nontrivial:
            self.distinct.add(jhash(desc))

    def seen(self, setname: str, item):
        """Record a distinct situation (small hashable/JSON-able)."""
        self.sets.setdefault(setname, set()).add(
            item if isinstance(item, str) else json.dumps(item, default=repr)
        )

    def sample(self, obj, force=False):
        if force or len(self.samples) < self.MAX_SAMPLES:
            self.samples.append(obj)

    def note(self, msg: str):
        if len(self.notes) < 30:
            self.notes.append(msg)

    def violation(self, signature: str, message: str, case):
        """signature: mechanism-level key (matched against known_findings.json)."""
        self.count("violations_raw")
        if len(self.violations) < self.MAX_VIOLATIONS or not any(
            v["signature"] == signature for v in self.violations
        ):
            self.violations.append(
                {"signature": signature, "message": message, "case": case}
            )

    def newdir(self, tag: str = "d") -> Path:
        self._dirctr += 1
        # hostile but legal directory names (dots, '.p'/'.ih5' infixes, spaces, hidden) rotate through all work directories:
        # file-name conventions of the subject must not be confused by the directory part of a path
        hostile = ["plain", "my.projects", ".private", "x.ih5", "with space", "data.p2", "a.p1.ih5", "ünï", "sample[1]", "st*r", "q?", "{a,b}"]
        hostile = hostile[self._dirctr % len(hostile)]
        d = self.scratch / f"{tag}{self.shard}_{self._dirctr}" / hostile
        d.mkdir(parents=True, exist_ok=True)
        return d

    def rmdir(self, d: Path, collect: bool = False):
        if collect:
            gc.collect()  # failed IH5Record opens leak h5py handles until collection
        d = Path(d)
        shutil.rmtree(d.parent if d.parent.parent == self.scratch else d, ignore_errors=True)

    # -- (de)serialisation
    def dump(self) -> dict:
        return {
            "counters": self.counters,
            "evaluations": self.evaluations,
            "distinct": sorted(self.distinct),
            "sets": {k: sorted(v) for k, v in self.sets.items()},
            "samples": self.samples,
            "violations": self.violations,
            "notes": self.notes,
        }

    def merge(self, d: dict):
        for k, v in d["counters"].items():
            self.count(k, v)
        self.evaluations += d["evaluations"]
        self.distinct.update(d["distinct"])
        for k, v in d["sets"].items():
            self.sets.setdefault(k, set()).update(v)
        for s in d["samples"]:
            if len(self.samples) < 8:
                self.samples.append(s)
        for v in d["violations"]:
            self.violations.append(v)
        for n in d["notes"]:
            self.note(n)


def load_known():
    p = HOME / "known_findings.json"
    if not p.exists():
        return []
    return [f for f in json.loads(p.read_text()).get("findings", [])]


def find_module(pid: str):
    import checks

    for m in pkgutil.iter_modules(checks.__path__):
        if m.name.lower().startswith(pid.lower() + "_") or m.name.lower() == pid.lower():
            return importlib.import_module(f"checks.{m.name}")
    raise SystemExit(f"no check module for {pid}")


def make_scratch() -> Path:
    base = Path("/dev/shm") if os.access("/dev/shm", os.W_OK) else Path("/tmp")
    d = base / f"verif-{os.getpid()}"
    d.mkdir(parents=True, exist_ok=True)
    return d


def assert_repo():
    import metador_core

    f = Path(metador_core.__file__).resolve()
    if REPO not in f.parents:
        print(f"INCONCLUSIVE: metador_core imported from {f}, not under {REPO}")
        sys.exit(EXIT_INCONCLUSIVE)


def _worker(mod, units, acc: Acc, outfile: Path, reach_files):
    from . import reach

    faulthandler.enable()
    try:
        if reach_files:
            reach.start(reach_files)
        for u in units:
            try:
                mod.run_unit(u, acc)
            except BaseException as e:  # harness error: never a verdict
                acc.count("harness_errors")
                acc.note(
                    f"harness error in unit {str(u)[:120]}: {type(e).__name__}: {e}\n"
                    + "".join(traceback.format_exc().splitlines(True)[-8:])
                )
        d = acc.dump()
        if reach_files:
            d["reach"] = reach.stop()
    except BaseException:
        d = acc.dump()
        d["notes"].append("worker crashed: " + traceback.format_exc()[-800:])
        d["counters"]["harness_errors"] = d["counters"].get("harness_errors", 0) + 1
    outfile.write_text(json.dumps(d, default=repr))


def main(argv=None):
    ap = argparse.ArgumentParser()
    ap.add_argument("prop")
    ap.add_argument("--tier", default=os.environ.get("VERIF_TIER", "quick"))
    ap.add_argument("--replay")
    ap.add_argument("--workers", type=int)
    ap.add_argument("--no-evidence", action="store_true")
    args = ap.parse_args(argv)
    tier = args.tier if args.tier in ("quick", "thorough") else "quick"
    seed = int(os.environ.get("VERIF_SEED", "0") or 0)
    t0 = time.time()

    if args.replay:
        args.replay = os.path.abspath(args.replay)
    scratch = make_scratch()
    os.chdir(scratch)
    try:
        rc = _main(args, tier, seed, scratch, t0)
    finally:
        os.chdir("/")
        gc.collect()
        shutil.rmtree(scratch, ignore_errors=True)
    sys.exit(rc)


def _main(args, tier, seed, scratch, t0):
    assert_repo()
    mod = find_module(args.prop)
    pid = mod.PROPERTY
    known = [k for k in load_known() if k["property"] == pid]

    total = Acc(tier, seed, scratch)
    reach_all: dict[str, set] = {}
    anchors = [str(REPO / a) for a in getattr(mod, "ANCHORS", [])]

    if args.replay:
        case = json.loads(Path(args.replay).read_text())
        acc = Acc(tier, seed, scratch)
        mod.replay(case.get("case", case), acc)
        total.merge(acc.dump())
    else:
        units = mod.units(tier, seed)
        nw = args.workers or getattr(mod, "WORKERS", {}).get(
            tier, 8 if tier == "quick" else 16
        )
        nw = max(1, min(nw, len(units)))
        shards = [units[i::nw] for i in range(nw)]
        limit = getattr(mod, "WATCHDOG_S", {}).get(
            tier, 600 if tier == "quick" else 3600
        )
        pids = {}
        sys.stdout.flush()
        for i, sh in enumerate(shards):
            out = scratch / f"out{i}.json"
            pid_ = os.fork()
            if pid_ == 0:
                rc = 0
                try:
                    wd = scratch / f"w{i}"
                    wd.mkdir()
                    os.chdir(wd)
                    faulthandler.dump_traceback_later(limit, exit=True)
                    _worker(mod, sh, Acc(tier, seed, wd, i), out, anchors)
                except BaseException:
                    traceback.print_exc()
                    rc = 3
                finally:
                    sys.stdout.flush()
                    sys.stderr.flush()
                    os._exit(rc)
            pids[pid_] = (i, out)
        deadline = time.time() + limit + 30
        dead_workers = 0
        while pids:
            try:
                p, st = os.waitpid(-1, os.WNOHANG)
            except ChildProcessError:
                break
            if p == 0:
                if time.time() > deadline:
                    for q in pids:
                        try:
                            os.kill(q, signal.SIGKILL)
                        except OSError:
                            pass
                    total.note("watchdog fired: workers killed")
                    dead_workers += len(pids)
                    break
                time.sleep(0.05)
                continue
            if p not in pids:
                continue
            i, out = pids.pop(p)
            if out.exists():
                d = json.loads(out.read_text())
                for f, lines in d.pop("reach", {}).items():
                    reach_all.setdefault(f, set()).update(lines)
                total.merge(d)
            else:
                dead_workers += 1
                total.note(f"worker {i} died without result (status {st})")
        if dead_workers:
            total.count("harness_errors", dead_workers)

    # ---- verdict
    cov = {
        "evaluations": total.evaluations,
        "distinct_nontrivial": len(total.distinct),
        "rule": mod.RULE,
        "samples": total.samples,
        "counters": dict(sorted(total.counters.items())),
        "distinct_situations": {k: len(v) for k, v in total.sets.items()},
        "situations": {k: sorted(v)[:60] for k, v in total.sets.items()},
        "notes": total.notes,
    }
    if hasattr(mod, "EXHAUSTIVE") and mod.EXHAUSTIVE.get(tier):
        cov["exhaustive"] = True
    if reach_all:
        from . import reach

        cov["anchor_reach"] = reach.summarise(reach_all, REPO)

    reasons = []
    if total.counters.get("harness_errors"):
        reasons.append(f"{total.counters['harness_errors']} harness error(s)")
    if not args.replay:
        if total.evaluations == 0:
            reasons.append("no case was evaluated")
        if hasattr(mod, "inconclusive"):
            reasons += list(mod.inconclusive(cov) or [])
        for a in anchors:
            if a.endswith(".py") and not reach_all.get(a):
                reasons.append(f"anchored file never executed: {a}")

    new_violations, known_hit = [], {}
    for v in total.violations:
        k = next((k for k in known if k["signature"] == v["signature"]), None)
        if k is not None:
            known_hit.setdefault(v["signature"], (k, v))
        else:
            new_violations.append(v)
    for sig, (k, v) in sorted(known_hit.items()):
        print(f"KNOWN-FINDING: property={pid} {k['what']} [signature={sig}]")
    cov["known_findings_hit"] = sorted(known_hit)

    rc = EXIT_HELD
    seen_sigs = set()
    if new_violations:
        rc = EXIT_VIOLATED
        rdir = Path(os.environ.get("VERIF_REPLAYS", HOME / "replays"))
        rdir.mkdir(parents=True, exist_ok=True)
        for v in new_violations:
            if v["signature"] in seen_sigs:
                continue
            seen_sigs.add(v["signature"])
            rp = rdir / f"{pid}-{jhash(v['case'])}.json"
            rp.write_text(
                json.dumps(
                    {"property": pid, "signature": v["signature"],
                     "message": v["message"], "case": v["case"]},
                    indent=1, default=repr,
                )
            )
            print(f"--- witness [{v['signature']}]: {v['message']}")
            print(f"VIOLATION property={pid} replay={rp}")
    elif reasons:
        rc = EXIT_INCONCLUSIVE
        for r in reasons:
            print(f"INCONCLUSIVE property={pid}: {r}")
        for n in total.notes[:6]:
            print("  note:", n)
    cov["violation_signatures"] = sorted(seen_sigs)
    cov["verdict"] = {0: "held on what was observed", 1: "violated", 2: "inconclusive"}[rc]
    if reasons:
        cov["inconclusive_reasons"] = reasons

    ev = {
        "property_id": pid,
        "tier": tier,
        "seed": seed,
        "level": mod.LEVEL,
        "coverage": cov,
        "assumptions": getattr(mod, "ASSUMPTIONS", []),
        "wall_s": round(time.time() - t0, 2),
        "violations": len(seen_sigs),
    }
    if not args.replay and not args.no_evidence:
        (HOME / "evidence").mkdir(exist_ok=True)
        (HOME / "evidence" / f"{pid}.json").write_text(
            json.dumps(ev, indent=1, default=repr) + "\n"
        )
    print(
        f"{pid} tier={tier} seed={seed}: {cov['verdict']}; evaluations={total.evaluations} "
        f"distinct_nontrivial={len(total.distinct)} wall={ev['wall_s']}s"
    )
    return rc


if __name__ == "__main__":
    main()
