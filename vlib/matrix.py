"""Systematic copy/move/refused-call histories for the container-level checks (shared by C06 and C09)."""

SETUP = [
    ["set", "src/d", ["arr", [1, 2, 3]]], ["sattr", "src/d", "da", ["int", 1]], ["set", "src/g/e", ["int", 5]],
    ["sattr", "src/g", "ga", ["str", "x"]], ["sattr", "src/g/e", "ea", ["bytes", "6162"]], ["grp", "src/g/empty"],
    ["sattr", "src/g/empty", "xa", ["arr", [1.5]]], ["sattr", "src", "sa", ["int", 9]], ["set", "other/o", ["str", "o"]],
    ["meta", "/src", "fam.base", [0, 1, 0], 1, "fresh"], ["meta", "/src/g", "fam.mid", [0, 1, 0], 2, "fresh"],
    ["meta", "/src/g/e", "fam.base", [0, 2, 0], 3, "fresh"], ["meta", "/src/d", "fam.leaf", [0, 1, 0], 4, "fresh"],
]


def matrix_histories():
    """Systematic copy/move family: every source shape x destination form x option combination x patch-boundary placement,
    each followed by touches of the copy and deletion of the original."""
    out = []
    optss = [{}, {"without_attrs": True}, {"without_meta": True}, {"without_attrs": True, "without_meta": True}]
    for src in ("src", "src/g", "src/d", "src/g/e"):
        for bound in ("none", "after-setup", "both"):
            for opts in optss:
                for form in ("path", "deep-path", "obj", "obj-named", "at-handle"):
                    if form == "path":
                        act = ["copy2", src, "dst", opts]
                        dst = "dst"
                    elif form == "deep-path":
                        act = ["copy2", src, "deep/new/dst", opts]
                        dst = "deep/new/dst"
                    elif form == "obj":
                        act = ["copyobj", src, "other", None, opts]
                        dst = "other/" + src.split("/")[-1]
                    elif form == "obj-named":
                        act = ["copyobj", src, "/", "named", opts]
                        dst = "named"
                    else:
                        if opts or "/" not in src:
                            continue
                        par, leaf = src.rsplit("/", 1)
                        act = ["at", "/" + par, ["copy", leaf, "copied-here"]]  # relative source and destination from the parent handle
                        dst = par + "/copied-here"
                    ops = list(SETUP) + ([["commit"]] if bound != "none" else []) + [act] + ([["commit"]] if bound == "both" else [])
                    ops += [["sattr", dst, "touched", ["int", 1]], ["del", src], ["commit"], ["sattr", dst, "again", ["int", 2]]]
                    out.append(ops)
            if "/" in src:
                # moved through the handle of its parent group: relative names, relative source + absolute destination
                par, leaf = src.rsplit("/", 1)
                for bound2 in ("none", "after-setup"):
                    for dst_form, dst, where in (("relative", "moved-here", par + "/moved-here"), ("absolute", "/elsewhere/" + leaf, "elsewhere/" + leaf)):
                        out.append(list(SETUP) + ([["commit"]] if bound2 != "none" else []) + [["at", "/" + par, ["move", leaf, dst]], ["commit"],
                                                                                              ["sattr", where, "t", ["int", 1]], ["copy2", where, "again", {}]])
            for bound2 in ("none", "after-setup"):
                out.append(list(SETUP) + ([["commit"]] if bound2 != "none" else []) + [["move", src, "moved/to"], ["commit"], ["sattr", "moved/to", "t", ["int", 1]],
                                                                                      ["copy2", "moved/to", "back", {}], ["del", "moved"]])
    # calls that HDF5 refuses, at / below nodes deleted in the same patch: refused on every driver, no trace on any
    for victim in ("src", "src/g", "src/d"):
        for bound in ("none", "after-setup"):
            for below in ("", "/new", "/deep/er"):
                out.append(list(SETUP) + ([["commit"]] if bound != "none" else []) + [["del", victim], ["set", victim + below, ["unstorable"]], ["commit"],
                                                                                     ["sattr", "/", "t", ["int", 1]]])
    return out


