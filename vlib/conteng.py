"""Container-level engine: operations on MetadorContainer (h5py / IH5 / IH5MF driver) in lock-step
with a plain h5py reference tree (user data only) and a shadow map of attached metadata.

Monitors (selected per check):
  toc      TOC oracle on the raw container after every call, ok or raised          (C06)
  reopen   public TOC view before close == after reopen                            (C06, C20)
  meta     per-node metadata read-back + parent views + refusal cases               (C07)
  query    query result sets vs brute force from shadow map + plugin system         (C07)
  vis      user-visible tree/listings == plain reference tree; statuses            (C08)
  selfdesc embedded JSON Schema / parent chain / provider per stored object        (C20)
"""
from __future__ import annotations

import gc
import json
import random
from pathlib import Path

import h5py

from metador_core.container import MetadorContainer
from metador_core.ih5.container import IH5MFRecord, IH5Record
from metador_core.plugins import schemas

from . import families as F
from . import h5eng as E
from . import tocoracle
from .opgen import DataGen, tree_paths

DRIVERS = {"h5": None, "ih5": IH5Record, "ih5mf": IH5MFRecord}


def refkey(name, ver):
    return f"{name}__{'.'.join(map(str, ver))}"


# ------------------------------------------------------------------ subject


class Subject:
    def __init__(self, d, driver):
        self.d, self.driver = Path(d), driver
        if driver == "h5":
            self.mc = MetadorContainer(h5py.File(self.d / "c.h5", "w"))
        else:
            self.mc = MetadorContainer(DRIVERS[driver](self.d / "c", "w"))
        self.kept = {}  # path -> MetadorMeta handle kept alive across operations
        self.keptnodes = {}  # path -> node wrapper kept alive across operations (its .meta is asked for anew every time)
        self.donor = None

    @property
    def raw(self):
        return self.mc.__wrapped__

    def boundary(self, kind):
        self.kept.clear()
        self.keptnodes.clear()
        if kind == "commit":
            if self.driver != "h5":
                self.raw.commit_patch()
                self.raw.create_patch()
        else:
            self.mc.close()
            if self.driver == "h5":
                self.mc = MetadorContainer(h5py.File(self.d / "c.h5", "r+"))
            else:
                self.mc = MetadorContainer(DRIVERS[self.driver](self.d / "c", "r+"))

    def get_donor(self):
        """A second container (plain h5py driver) holding annotated nodes: source of cross-container copies."""
        if self.donor is None:
            (self.d / "donor").mkdir(exist_ok=True)
            dn = MetadorContainer(h5py.File(self.d / "donor" / "donor.h5", "w"))
            build_donor(dn)
            self.donor = dn
        return self.donor

    def meta_handle(self, path, via):
        if via == "kept":
            if path not in self.kept:
                self.kept[path] = self.mc[path].meta
            return self.kept[path]
        if via == "node":
            # a node wrapper obtained earlier and kept: `.meta` of it is a fresh view of the node's metadata at every access,
            # whatever happened through other wrappers of the same node in between
            if path not in self.keptnodes:
                self.keptnodes[path] = self.mc[path]
            return self.keptnodes[path].meta
        return self.mc[path].meta

    def apply(self, op):
        """Execute op; returns status string."""
        k = op[0]
        mc = self.mc
        try:
            if k in ("commit", "reopen"):
                self.boundary(k)
            elif k == "meta":
                _, path, name, ver, i, via = op
                cls = schemas.get(name, tuple(ver))
                obj = cls.parse_obj(F.instance(name, ver, i))
                m = self.meta_handle(path, via)
                m[cls] = obj if i % 3 else obj.dict()  # object or plain dict input
            elif k == "delmeta":
                _, path, name, via = op
                m = self.meta_handle(path, via)
                del m[name]
            elif k == "badmeta":
                _, path, kind, name, ver = op
                m = mc[path].meta
                if kind == "invalid":
                    m["core.file"] = {"filename": "", "nonsense": 1}
                elif kind == "aux":
                    m["fam.aux"] = {"a": 1}
                elif kind == "unknown":
                    m["no.such.schema"] = {"a": 1}
            elif k == "copy2":
                _, src, dst, opts = op
                mc.copy(src, dst, **opts)
            elif k == "copyfrom":  # source is a node object of ANOTHER container
                _, dsrc, dst, opts = op
                mc.copy(self.get_donor()[dsrc], dst, **opts)
            elif k == "copyobj":
                _, src, dstg, name, opts = op
                kw = dict(opts)
                if name is not None:
                    kw["name"] = name
                mc.copy(mc[src], mc[dstg], **kw)
            else:
                E.apply_op(mc, op)
            return "ok"
        except Exception as e:
            return "fail:" + type(e).__name__
        finally:
            self.drop_stale(op)

    def drop_stale(self, op):
        """A kept handle is dropped only when its node (or an ancestor/descendant path) is touched STRUCTURALLY (deleted, moved,
        copied onto, re-created): the handle then belongs to a node that is gone."""
        k = op[0]
        if k in ("meta", "delmeta", "badmeta"):
            # metadata operations never invalidate a handle: a kept `meta` handle and kept node wrappers of the same node must
            # see what was done through any other handle (several live handles on one node are ordinary Python)
            return
        ps = [E.abspath("/", p) for p in (op[2:3] if k == "copyfrom" else op[1:3]) if isinstance(p, str)]
        if k == "at":  # operation through a sub-group handle: the paths it names (relative to the group, or absolute)
            ps = list(E.op_paths(op))
        if k == "copyobj" and op[3]:
            ps.append(E.abspath("/", op[2]).rstrip("/") + "/" + op[3])
        for kp in list(self.kept):
            if any(E.is_sub(p, kp) or E.is_sub(kp, p) for p in ps):
                del self.kept[kp]
        for kp in list(self.keptnodes):
            if any(E.is_sub(p, kp) or E.is_sub(kp, p) for p in ps):
                del self.keptnodes[kp]

    def close(self):
        try:
            self.mc.close()
        except Exception:
            pass
        try:
            if self.donor is not None:
                self.donor.close()
        except Exception:
            pass
        self.kept.clear()


DONOR_META = {"/dg": [("core.dir", (0, 1, 0), 41)], "/dg/dd": [("core.imagefile", (0, 1, 0), 42), ("example.matsci.material", (0, 1, 0), 43)],
              "/dg/sub": [("core.bib", (0, 1, 0), 44)], "/dg/sub/e": [("fam.leaf", (0, 1, 0), 45)], "/top": [("core.table", (0, 1, 0), 46)]}


def build_donor(dn):
    dn["dg/dd"] = [1, 2, 3]
    dn["dg/sub/e"] = 5
    dn["dg/plain"] = "p"
    dn["top"] = 1
    dn["dg"].attrs["da"] = 1
    for p, objs in DONOR_META.items():
        for name, ver, i in objs:
            cls = schemas.get(name, ver)
            dn[p].meta[cls] = cls.parse_obj(F.instance(name, ver, i))


def build_donor_plain(f):
    f["dg/dd"] = [1, 2, 3]
    f["dg/sub/e"] = 5
    f["dg/plain"] = "p"
    f["top"] = 1
    f["dg"].attrs["da"] = 1


# ------------------------------------------------------------------ reference (plain tree + shadow map)


class Reference:
    def __init__(self, d):
        self.f = h5py.File(Path(d) / "ref.h5", "w")
        self.path = Path(d) / "ref.h5"
        self.shadow = {}  # abs path -> {schema name: (name, version tuple, instance index)}

    def exists(self, p):
        return p == "/" or p in self.f

    def apply(self, op):
        """Expected status + update of plain tree and shadow."""
        k = op[0]
        f, sh = self.f, self.shadow
        if k in ("commit", "reopen"):
            if k == "reopen":
                f.close()
                self.f = h5py.File(self.path, "r+")
            return "ok"
        if k == "meta":
            _, path, name, ver, i, via = op
            p = E.abspath("/", path)
            if not self.exists(p) or name in sh.get(p, {}):
                return "fail"
            # the container parses the object with the NEWEST installed version compatible with the given one
            # and stores it under that reference (documented: "Return compatible installed schema class")
            rv = tuple(schemas.resolve(name, tuple(ver)).version)
            sh.setdefault(p, {})[name] = (name, rv, i, tuple(ver))
            return "ok"
        if k == "delmeta":
            p = E.abspath("/", op[1])
            if not self.exists(p) or op[2] not in sh.get(p, {}):
                return "fail"
            del sh[p][op[2]]
            if not sh[p]:
                del sh[p]
            return "ok"
        if k == "badmeta":
            return "fail"
        if k == "copyfrom":
            _, dsrc, dst, opts = op
            if set(opts) - {"without_attrs", "without_meta"}:
                return "fail"
            if getattr(self, "donor", None) is None:
                self.donor = h5py.File(Path(self.path).parent / "donor_ref.h5", "w")
                build_donor_plain(self.donor)
            try:
                f.copy(self.donor[dsrc], dst, without_attrs=opts.get("without_attrs", False))
            except Exception:
                return "fail"
            if not opts.get("without_meta", False):
                d = E.abspath("/", dst)
                for q, objs in DONOR_META.items():
                    if E.is_sub(dsrc, q):
                        for name, ver, i in objs:
                            rv = tuple(schemas.resolve(name, tuple(ver)).version)
                            self.shadow.setdefault(d + q[len(dsrc):], {})[name] = (name, rv, i, tuple(ver))
            return "ok"
        if k == "copy2":
            _, src, dst, opts = op
            if set(opts) - {"without_attrs", "without_meta"}:
                return "fail"  # unsupported keyword: must be refused WITHOUT any effect
            try:
                f.copy(src, dst, without_attrs=opts.get("without_attrs", False))
            except Exception:
                return "fail"
            self._copy_shadow(E.abspath("/", src), E.abspath("/", dst), opts.get("without_meta", False))
            return "ok"
        if k == "copyobj":
            _, src, dstg, name, opts = op
            if set(opts) - {"without_attrs", "without_meta"}:
                return "fail"
            try:
                kw = {"without_attrs": opts.get("without_attrs", False)}
                if name is not None:
                    kw["name"] = name
                f.copy(f[src], f[dstg], **kw)
            except Exception:
                return "fail"
            s = E.abspath("/", src)
            d = E.abspath("/", dstg).rstrip("/") + "/" + (name or s.split("/")[-1])
            self._copy_shadow(s, d, opts.get("without_meta", False))
            return "ok"
        try:
            E.apply_op(f, op)
        except Exception:
            return "fail"
        kk = E.inner(op)[0]
        ps = E.op_paths(op)
        if kk == "del":
            for q in [q for q in sh if E.is_sub(ps[0], q)]:
                del sh[q]
        elif kk == "move":
            for q in [q for q in sh if E.is_sub(ps[0], q)]:
                sh[ps[1] + q[len(ps[0]):]] = sh.pop(q)
        elif kk == "copy":
            self._copy_shadow(ps[0], ps[1], False)
        return "ok"

    def _copy_shadow(self, s, d, without_meta):
        if without_meta:
            return
        for q in [q for q in self.shadow if E.is_sub(s, q)]:
            self.shadow[d + q[len(s):]] = dict(self.shadow[q])

    def close(self):
        try:
            self.f.close()
        except Exception:
            pass
        try:
            if getattr(self, "donor", None) is not None:
                self.donor.close()
        except Exception:
            pass


# ------------------------------------------------------------------ generator


class ContGen:
    def __init__(self, rng, driver, families=True, boundaries=True, allow_self_copy=False):
        self.rng = rng
        self.dg = DataGen(rng, boundaries=False, allow_self_copy=allow_self_copy,
                          weights={"set": 22, "grp": 12, "del": 12, "copy": 5, "move": 8, "sattr": 6, "dattr": 3, "rgrp": 4})
        self.att = [a for a in F.ATTACHABLE if families or not a[0].startswith("fam.")]
        self.boundaries = boundaries
        self.i = 0

    def next(self, ref: Reference):
        rng = self.rng
        self.i += 1
        nodes, groups = tree_paths(ref.f)
        r = rng.random()
        anyn = nodes + ["/"]
        via = rng.choice(["kept", "kept", "node", "fresh", "fresh", "fresh"])
        if r < 0.36 or not nodes:
            op = self.dg.next(ref.f)
            return op
        if r < 0.62:
            name, ver = rng.choice(self.att)
            p = rng.choice(anyn) if rng.random() < 0.93 else "/no/such"
            return ["meta", p, name, list(ver), self.i, via]
        if r < 0.72:
            withmeta = list(ref.shadow)
            if withmeta and rng.random() < 0.85:
                p = rng.choice(withmeta)
                name = rng.choice(list(ref.shadow[p]))
                if rng.random() < 0.25:
                    # the name of an ANCESTOR schema of an attached object: deletion is by explicit schema only (KeyError
                    # unless an object of exactly that schema is attached as well)
                    _, ver, _, _ = ref.shadow[p][name]
                    anc = [a.name for a in schemas.parent_path(name, ver)[:-1]]
                    if anc:
                        name = rng.choice(anc)
            else:
                p, name = rng.choice(anyn), rng.choice(self.att)[0]
            return ["delmeta", p, name, via]
        if r < 0.80:
            src = rng.choice(nodes)
            dst = self.dg.any_path(nodes, groups, 0.1)
            opts = {}
            if rng.random() < 0.35:
                opts["without_meta"] = True
            if rng.random() < 0.25:
                opts["without_attrs"] = True
            if rng.random() < 0.12:  # a call that must be REJECTED for an unsupported keyword (and have no effect)
                opts[rng.choice(["shallow", "expand_refs", "bogus"])] = rng.choice([True, False])
            if E.is_sub(E.abspath("/", src), E.abspath("/", dst)):
                return self.next(ref)
            if rng.random() < 0.15:
                # sources: groups and an un-annotated dataset (annotated DATASETS of another container are not copyable:
                # their metadata group is looked up in the destination container; recorded as observation in DESIGN.md)
                return ["copyfrom", rng.choice(["/dg", "/dg/sub", "/dg/plain", "/dg"]), dst,
                        {k: v for k, v in opts.items() if k in ("without_meta", "without_attrs")}]
            return ["copy2", src, dst, opts]
        if r < 0.85:
            src = rng.choice(nodes)
            dstg = rng.choice(groups)
            if E.is_sub(src, dstg):
                return self.next(ref)
            name = rng.choice([None, None, f"n{self.i}", src.split("/")[-1]])
            opts = {"without_meta": True} if rng.random() < 0.3 else {}
            return ["copyobj", src, dstg, name, opts]
        if r < 0.91:
            kind = rng.choice(["dup", "invalid", "aux", "unknown"])
            p = rng.choice(anyn)
            name, ver = "core.dir", (0, 1, 0)
            if kind == "dup":  # second object of a schema that is already attached (any version of it)
                wm = [q for q in ref.shadow]
                if not wm:
                    return self.next(ref)
                p = rng.choice(wm)
                name, ver, _, _ = rng.choice(list(ref.shadow[p].values()))
                others = [a for a in self.att if a[0] == name]
                return ["meta", p, name, list(rng.choice(others)[1]), 99, via]
            return ["badmeta", p, kind, name, list(ver)]
        if not self.boundaries:
            return self.next(ref)
        return ["commit"] if r < 0.97 else ["reopen"]


# ------------------------------------------------------------------ monitors


def toc_public_view(mc):
    S = mc.metador.schemas
    out = {"schemas": sorted(str(k) for k in S.keys()), "packages": sorted(map(str, S.packages.keys()))}
    names = set()
    for ref in S.keys():
        pp = S.parent_path(ref)
        out[f"parent_path:{ref}"] = [str(p) for p in pp]
        out[f"children:{ref}"] = sorted(str(c) for c in S.children(ref))
        for anc in pp[:-1]:  # ancestors, whether objects of them are attached themselves or not
            try:
                out[f"children-of-ancestor:{anc}"] = sorted(str(c) for c in S.children(anc))
            except Exception as e:
                out[f"children-of-ancestor:{anc}"] = f"{type(e).__name__}"
        out[f"provider:{ref}"] = S.provider(ref).json()
        out[f"jsonschema:{ref}"] = S[ref]
        names.update(p.name for p in pp)
    for n in sorted(names):
        out[f"versions:{n}"] = sorted(str(r) for r in S.versions(n))
        out[f"query:{n}"] = sorted(x.name for x in mc.metador.query(n))
    return out


def stored_obj(name, rv, i, ver=None):
    """Class and object as stored: instance built for version `ver`, parsed by the resolved class `rv`."""
    cls = schemas.get(name, tuple(rv))
    src = schemas.get(name, tuple(ver or rv)).parse_obj(F.instance(name, ver or rv, i))
    return cls, (src if isinstance(src, cls) else cls.parse_obj(src.dict()))


def check_meta(sub: Subject, ref: Reference, rng, acc, sample=6):
    """Per-node read-back (C07). Returns (kind, detail) or None."""
    mc = sub.mc
    nodes, _ = tree_paths(ref.f)
    cands = list(ref.shadow) + rng.sample(nodes + ["/"], min(2, len(nodes) + 1))
    rng.shuffle(cands)
    for p in cands[:sample]:
        want = ref.shadow.get(p, {})
        if p not in sub.keptnodes and len(sub.keptnodes) < 12:
            sub.keptnodes[p] = mc[p]
            sub.keptnodes[p].meta  # (looked at once, long before it is asked again)
        for how in ("fresh", "kept", "node"):
            if how == "kept" and p not in sub.kept:
                continue
            if how == "node" and p not in sub.keptnodes:
                continue
            m = sub.kept[p] if how == "kept" else sub.keptnodes[p].meta if how == "node" else mc[p].meta
            acc.count(f"meta_reads.{how}")
            if set(m.keys()) != set(want) or len(m) != len(want) or set(iter(m)) != set(want):
                return "meta-keys", f"{p} ({how} handle): meta.keys() = {sorted(m.keys())}, attached {sorted(want)}"
            # items()/values(): one record per attached object, naming its schema (resolved version) and the node that holds it
            its = dict(m.items())
            vals = list(m.values())
            if set(its) != set(want) or len(vals) != len(want):
                return "meta-items", f"{p} ({how} handle): items() {sorted(its)} / {len(vals)} values, attached {sorted(want)}"
            for name, sm in its.items():
                ver = want[name][1]
                if sm.schema.name != name or tuple(sm.schema.version) != tuple(ver):
                    return "meta-items", f"{p}: items()[{name}] names schema {sm.schema}, stored as {name} {ver}"
                if sm.to_path() not in sub.raw or not any(v.uuid == sm.uuid for v in vals):
                    return "meta-items", f"{p}: items()[{name}] points to {sm.to_path()} which is not in the container"
            # query at the node: '' lists everything; (name, version) in all argument forms lists the attached objects that are
            # instances of it or of a child schema, compatible version
            everything = sorted(str(r) for r in m.query())
            if everything != sorted(str(sm.schema) for sm in vals):
                return "meta-query", f"{p}: meta.query() lists {everything}, attached {sorted(str(sm.schema) for sm in vals)}"
            if "" in m or ("", None) in m:
                return "meta-contains", f"{p}: '' in meta is True"
            acc.count("meta_query_forms")
            # (the argument forms are tried for ONE attached object per visit and handle kind: the listing forms above already cover all)
            for name, (_, ver, i, over) in (rng.sample(sorted(want.items()), 1) if want else []):
                cls, obj = stored_obj(name, ver, i, over)
                for anc in schemas.parent_path(name, ver):
                    av = tuple(anc.version)
                    expect = {str(schemas.PluginRef(name=n2, version=v2)) for n2, (_, v2, _, _) in want.items()
                              if any(a.name == anc.name and tuple(a.version)[0] == av[0] and av[1] >= tuple(a.version)[1] for a in schemas.parent_path(n2, v2))}
                    # (objects stored under the newest compatible version: a request for av is served by stored minor <= av.minor?? no:
                    #  compatibility is judged as in brute_query: same major, requested minor >= stored minor)
                    forms = {"name+version": lambda: m.query(anc.name, av), "tuple": lambda: m.query((anc.name, av)),
                             "ref": lambda: m.query(schemas.PluginRef(name=anc.name, version=av))}
                    if tuple(schemas.get(anc.name, av).Plugin.version) == av:  # (get() hands out the newest compatible class)
                        forms["class"] = lambda: m.query(schemas.get(anc.name, av))
                    for fname, fn in forms.items():
                        got = [str(r) for r in fn()]
                        if len(got) != len(set(got)) or set(got) != expect:
                            return "meta-query", f"{p}: meta.query({anc.name},{av}) [{fname} form] = {sorted(got)}, brute force {sorted(expect)}"
                    for fname, arg in (("reference", schemas.PluginRef(name=anc.name, version=av)), ("(name, None)", (anc.name, None)),
                                       ("(name, version)", (anc.name, av)), ("class", schemas.get(anc.name, av))):
                        try:
                            inside = arg in m
                        except Exception as e:
                            return "meta-contains-raised", f"{p}: `{fname} form of {anc.name} in meta` raised {type(e).__name__}: {e}"
                        if not inside:
                            return "meta-contains", f"{p}: {fname} form of '{anc.name}' not in meta although attached"
            for name, (_, ver, i, over) in want.items():
                cls, obj = stored_obj(name, ver, i, over)
                if name not in m or (name, ver) not in m or cls not in m:
                    return "meta-contains", f"{p} ({how} handle): '{name}' in meta is False although attached"
                got = m.get(name, ver)
                if got is None or got != obj:
                    return "meta-readback", f"{p} ({how} handle): meta.get({name},{ver}) = {got!r}, stored {obj!r}"
                if m[cls] != obj:
                    return "meta-readback", f"{p}: meta[class] differs from stored object"
                # ancestor views
                for anc in schemas.parent_path(name, ver)[:-1]:
                    P = schemas.get(anc.name, tuple(anc.version))
                    view = m.get(anc.name, tuple(anc.version))
                    acc.count("parent_views")
                    if view is None or not isinstance(view, P):
                        return "parent-view", f"{p}: object of {name} {ver} not available as ancestor {anc.name} {tuple(anc.version)}: {view!r}"
                    # documented "parent consistency": with several suitable objects at one node ANY of them may
                    # serve the ancestor view, so the view must be the projection of SOME attached descendant
                    cands = []
                    for n2, (_, v2, i2, o2) in want.items():
                        if any(a.name == anc.name and tuple(a.version) == tuple(anc.version) for a in schemas.parent_path(n2, v2)):
                            cands.append(P.parse_raw(bytes(stored_obj(n2, v2, i2, o2)[1])))
                    if view not in cands:
                        return "parent-view", f"{p}: ancestor view {anc.name} = {view!r} is not the parent projection of any attached object"
                    if anc.name not in m:
                        return "parent-view", f"{p}: '{anc.name}' in meta is False although a descendant is attached"
            for other, over in (("example.matsci.instrument", (0, 1, 0)), ("core.org", (0, 1, 0))):
                if other not in want and not any(other == a.name for nm, (_, v, _, _) in want.items() for a in schemas.parent_path(nm, v)):
                    if m.get(other) is not None or other in m:
                        return "meta-phantom", f"{p}: meta.get({other}) yields an object although none is attached"
    return None


VERSION_ARGS = {None: 1}


def version_args(name):
    regd = [tuple(r.version) for r in schemas.versions(name)]
    return [None] + regd + [(0, 9, 0), (5, 0, 0), (0, 0, 0)]


def brute_query(ref: Reference, start, name, ver):
    out = set()
    for p, d in ref.shadow.items():
        if not E.is_sub(start, p):
            continue
        for _, (n, v, _, _) in d.items():
            for q in schemas.parent_path(n, v):
                qv = tuple(q.version)
                if q.name == name and (ver is None or (qv[0] == ver[0] and ver[1] >= qv[1])):
                    out.add(p)
    return out


def check_queries(sub: Subject, ref: Reference, rng, acc, names, nstarts=3):
    mc = sub.mc
    nodes, groups = tree_paths(ref.f)
    dsets = [n for n in nodes if n not in groups]
    starts = ["/"] + rng.sample(groups[1:], min(nstarts, len(groups) - 1)) + rng.sample(dsets, min(1, len(dsets)))
    for name in names:
        va = version_args(name)
        for ver in ([None] + rng.sample(va[1:], min(2, len(va) - 1))):
            for start in starts:
                want = brute_query(ref, start, name, ver)
                node = mc[start]
                forms = [("container.query(node=)", lambda: mc.metador.query(name, ver, node=node)),
                         ("node.metador.query", lambda: node.metador.query(name, ver))]
                if start == "/":
                    forms.append(("container.query", lambda: mc.metador.query(name, ver)))
                if ver is not None and rng.random() < 0.15:  # the other documented argument forms of (schema, version), sampled
                    forms.append(("node.metador.query((name, version))", lambda: node.metador.query((name, ver))))
                    forms.append(("node.metador.query(PluginRef)", lambda: node.metador.query(schemas.PluginRef(name=name, version=ver))))
                    if any(tuple(r.version) == tuple(ver) for r in schemas.versions(name)):
                        kls = schemas.get(name, ver)  # (hands out the NEWEST installed class compatible with the request)
                        if tuple(kls.Plugin.version) == tuple(ver):
                            forms.append(("node.metador.query(class)", lambda: node.metador.query(kls)))
                for fname, fn in forms:
                    try:
                        res = [x.name for x in fn()]
                    except Exception as e:
                        return "query-raised", f"{fname}({name},{ver}) from {start} raised {type(e).__name__}: {e}"
                    acc.count("queries")
                    if len(res) != len(set(res)):
                        return "query-duplicates", f"{fname}({name},{ver}) from {start} yields a node twice: {res}"
                    if set(res) != want:
                        extra, miss = sorted(set(res) - want), sorted(want - set(res))
                        kind = "query-extra" if extra else "query-missing"
                        return kind, f"{fname}({name!r},{ver}) from {start}: got {sorted(res)}, brute force {sorted(want)} (extra {extra}, missing {miss})"
    return None


def check_selfdesc(sub: Subject, acc, scan=None):
    import jsonschema
    mc = sub.mc
    scan = scan or tocoracle.scan(sub.raw)
    S = mc.metador.schemas
    for uu, (ep, objpath, node) in scan["objects"].items():
        name, vs = ep.split("__")
        ver = tuple(map(int, vs.split(".")))
        ref = schemas.PluginRef(name=name, version=ver)
        acc.count("selfdesc_objects")
        try:
            js = S[ref]
        except Exception as e:
            return "no-embedded-jsonschema", f"{ep}: container has no embedded JSON Schema ({type(e).__name__})"
        raw = sub.raw[objpath][()]
        try:
            jsonschema.Draft7Validator(js).validate(json.loads(raw))
        except jsonschema.ValidationError as e:
            return "object-invalid-against-embedded-schema", f"{objpath}: {e.message[:150]}"
        cls = schemas.get(name, ver)
        if js != json.loads(cls.schema_json()):
            return "embedded-schema-differs", f"{ep}: embedded JSON Schema is not the schema of the class"
        if [str(p) for p in S.parent_path(ref)] != [str(p) for p in schemas.parent_path(name, ver)]:
            return "parent-chain", f"{ep}: embedded parent chain {S.parent_path(ref)} != {schemas.parent_path(name, ver)}"
        try:
            prov = S.provider(ref)
        except KeyError:
            return "no-provider", f"{ep}: no provider record"
        env = schemas.provider(ref)
        if (prov.name, tuple(prov.version)) != (env.name, tuple(env.version)) or \
                sorted(map(str, prov.plugins.get("schema", []))) != sorted(map(str, env.plugins.get("schema", []))):
            return "provider", f"{ep}: provider record {prov.name} {prov.version} != plugin system {env.name} {env.version}"
        if ref not in prov.plugins.get("schema", []):
            return "provider", f"{ep}: recorded provider {prov.name} does not list the schema"
    return None


def check_vis(sub: Subject, ref: Reference, acc, full=True):
    """User-visible tree and every listing form == plain reference tree (C08 b)."""
    mc = sub.mc
    try:
        dv, pv = E.full_dump(mc, ["/zz", "zz/y"], None if full else [])
    except Exception as e:
        return "view-unreadable", f"walking the user view raised {type(e).__name__}: {e}"
    dr, pr = E.full_dump(ref.f, ["/zz", "zz/y"], None if full else [])
    df = E.diff_dumps(dv, dr)
    if df:
        kind = "bookkeeping-visible" if "metador_" in df[1] else "view:" + df[0]
        return kind, df[2]
    if pv != pr:
        k = sorted(k for k in set(pv) | set(pr) if pv.get(k) != pr.get(k))[0]
        return "probe:" + k.split(":")[0], f"{k}: container {pv.get(k)} plain tree {pr.get(k)}"
    # all listing forms at every group
    for g, v in dr.items():
        if v[0] != "G":
            continue
        node = mc[g] if g != "/" else mc
        want = sorted(v[2])
        forms = {
            "keys": lambda: list(node.keys()), "iter": lambda: list(iter(node)), "items": lambda: [k for k, _ in node.items()],
            "values": lambda: [x.name.split("/")[-1] for x in node.values()], "len": lambda: len(node),
            "reversed": lambda: list(reversed(node)), "visit": lambda: _visit(node), "visititems": lambda: _visititems(node),
        }
        for fname, fn in forms.items():
            try:
                got = fn()
            except TypeError as e:
                if fname == "reversed":  # not reversible at all: nothing exposed
                    continue
                return "listing-raised", f"{fname} at {g} raised {e}"
            acc.count("listings")
            if fname == "len":
                if got != len(want):
                    return "listing:len", f"len({g}) = {got}, user nodes {len(want)}"
                continue
            if fname in ("visit", "visititems"):
                wantv = sorted(p[len(g.rstrip('/')) + 1:] for p in dr if p != g and E.is_sub(g, p))
                if sorted(got) != wantv:
                    return f"listing:{fname}", f"{fname} at {g} = {sorted(got)[:8]}, user nodes {wantv[:8]}"
                continue
            if sorted(got) != want:
                bad = [x for x in got if "metador_" in str(x)]
                return f"listing:{fname}", f"{fname} at {g} = {sorted(map(str, got))}, user nodes {want}" + (f" (exposes {bad})" if bad else "")
    return None


def _visit(node):
    out = []
    node.visit(out.append)
    return out


def _visititems(node):
    out = []
    node.visititems(lambda n, o: out.append(n))
    return out


# ------------------------------------------------------------------ one history


ALLNAMES = sorted({a[0] for a in F.ATTACHABLE} | {"core.file", "core.dir", "fam.base"})


def run_history(acc, d, driver, seed, nops, monitors, ops=None, record=True, families=True):
    """Generate (or replay `ops`) and monitor. Returns (ops_executed, mismatch|None)."""
    F.register()
    rng = random.Random(seed)
    sub, ref = Subject(d, driver), Reference(d)
    gen = ContGen(rng, driver, families=families)
    done = []
    mm = None
    try:
        for step in range(nops if ops is None else len(ops)):
            op = gen.next(ref) if ops is None else ops[step]
            want = ref.apply(op)
            got = sub.apply(op)
            done.append(op)
            if record:
                acc.count(f"ops.{E.inner(op)[0]}.{E.st(got)}")
            if E.st(got) != want and ("vis" in monitors or "status" in monitors or op[0] in ("meta", "delmeta", "badmeta", "copyfrom")
                                      or (op[0] in ("copy2", "copyobj") and set(op[-1]) - {"without_attrs", "without_meta"})):
                kind = "accepted" if E.st(got) == "ok" else "rejected"
                mm = (f"status:{op[0] if op[0] != 'badmeta' else 'badmeta-' + op[2]}:{kind}", f"{op} -> {got}, expected {want}")
                break
            if "toc" in monitors:
                sc = tocoracle.scan(sub.raw)
                acc.count("toc_scans.after_" + E.st(got))
                if sc["errors"]:
                    e = sc["errors"][0]
                    mm = ("toc:" + e[0], f"after {op} ({got}): {e}")
                    break
                if record:
                    acc.seen("max_objects", min(len(sc["objects"]), 12))
            else:
                sc = None
            deep = rng.random() < 0.34 or step == (nops if ops is None else len(ops)) - 1
            if "meta" in monitors and (deep or op[0] in ("meta", "delmeta", "copy2", "copyobj", "move", "copy")):
                r = check_meta(sub, ref, rng, acc)
                if r:
                    mm = (r[0], f"after {op}: {r[1]}")
                    break
            if "query" in monitors and (rng.random() < 0.12 or step == (nops if ops is None else len(ops)) - 1):
                r = check_queries(sub, ref, rng, acc, rng.sample(ALLNAMES, 2) + ["fam.base", rng.choice(["core.file", "core.dir", "fam.mid"])], nstarts=1)
                if r:
                    mm = (r[0], f"after {op}: {r[1]}")
                    break
            if "vis" in monitors:
                r = check_vis(sub, ref, acc, full=deep)
                if r:
                    mm = (r[0], f"after {op} ({got}): {r[1]}")
                    break
            if "selfdesc" in monitors and (deep or op[0] == "meta"):
                r = check_selfdesc(sub, acc, sc)
                if r:
                    mm = ("selfdesc:" + r[0], f"after {op}: {r[1]}")
                    break
            if "reopen" in monitors and (op[0] == "reopen" or step == (nops if ops is None else len(ops)) - 1):
                before = toc_public_view(sub.mc)
                sub.boundary("reopen")
                ref.apply(["reopen"])
                after = toc_public_view(sub.mc)
                acc.count("reopen_comparisons")
                if before != after:
                    k = sorted(k for k in set(before) | set(after) if before.get(k) != after.get(k))[0]
                    mm = ("reopen:" + k.split(":")[0], f"index rebuilt from disk differs from the incremental one at {k}: before {before.get(k)!r} after {after.get(k)!r}")
                    break
        if record and mm is None:
            nmeta = sum(len(v) for v in ref.shadow.values())
            acc.count("histories")
            acc.seen("objects_at_end", min(nmeta, 10))
        return done, mm
    finally:
        sub.close()
        ref.close()
        gc.collect()
