"""Independent scanner of the RAW container (driver API only) for the TOC invariant (DESIGN 3.4)."""
from __future__ import annotations

import json

from .h5eng import is_ds

TOC = "/metador_container"
MP = "metador_meta_"


def raw_nodes(raw):
    out = {}
    def f(name, node):
        out["/" + name] = ("D", node[()]) if is_ds(node) else ("G",)
    raw.visititems(f)
    return out


def scan(raw):
    """-> dict(objects, links, schemas, packages, errors) computed from scratch."""
    n = raw_nodes(raw)
    errs = []
    objs = {}      # uuid -> (ep, objpath, usernode)
    per_node = {}  # usernode -> {schema name: [ep,...]}
    for p, v in n.items():
        segs = p.split("/")
        if len(segs) >= 3 and segs[-2].startswith(MP) and not p.startswith(TOC + "/"):
            if v[0] != "D" or segs[-1].count("=") != 1:
                errs.append(("malformed-meta-entry", p))
                continue
            ep, uu = segs[-1].split("=")
            md = segs[-2]
            par = "/".join(segs[:-2])
            if md == MP:
                node = par or "/"
                want_kind = "G"
            else:
                node = par + "/" + md[len(MP):]
                want_kind = "D"
            if node != "/" and node not in n:
                errs.append(("orphan-metadata", p, f"user node {node} does not exist"))
            elif node != "/" and n[node][0] != want_kind:
                errs.append(("metadata-at-wrong-kind", p))
            if uu in objs:
                errs.append(("duplicate-uuid", uu, p, objs[uu][1]))
            objs[uu] = (ep, p, node)
            per_node.setdefault(node, {}).setdefault(ep.split("__")[0], []).append(ep)
    for node, d in per_node.items():
        for s, eps in d.items():
            if len(eps) > 1:
                errs.append(("two-objects-of-one-schema", node, s, eps))
    links = {}
    for p, v in n.items():
        if p.startswith(TOC + "/links/") and v[0] == "D":
            _, _, _, ep, uu = p.split("/")
            tgt = v[1].decode() if isinstance(v[1], bytes) else str(v[1])
            if uu in links:
                errs.append(("duplicate-link", uu))
            links[uu] = (ep, tgt)
    for uu, (ep, t) in links.items():
        if uu not in objs:
            errs.append(("dangling-link", uu, t))
        elif objs[uu][:2] != (ep, t):
            errs.append(("link-mismatch", uu, f"link ({ep}, {t}) vs object {objs[uu][:2]}"))
    for uu in objs:
        if uu not in links:
            errs.append(("unlinked-object", objs[uu][1]))
    used = {ep for ep, _, _ in objs.values()}
    sch = {p.split("/")[3] for p in n if p.startswith(TOC + "/schemas/") and p.count("/") == 3}
    lg = {p.split("/")[3] for p in n if p.startswith(TOC + "/links/") and p.count("/") == 3}
    if sch != used:
        errs.append(("schema-records!=used", f"records {sorted(sch)} used {sorted(used)}"))
    if lg != used:
        errs.append(("link-groups!=used", f"groups {sorted(lg)} used {sorted(used)}"))
    for ep in sch:
        for leaf in ("jsonschema.json", "compat"):
            if f"{TOC}/schemas/{ep}/{leaf}" not in n:
                errs.append(("schema-record-incomplete", ep, leaf))
    pkgs = {}
    for p, v in n.items():
        if p.startswith(TOC + "/packages/") and p.count("/") == 3:
            try:
                info = json.loads(v[1])
                provided = {f"{r['name']}__{'.'.join(map(str, r['version']))}" for r in info.get("plugins", {}).get("schema", [])}
            except Exception as e:
                errs.append(("package-record-unreadable", p, str(e)))
                continue
            pkgs[p.split("/")[3]] = provided
            if not (provided & used):
                errs.append(("package-record-unused", p))
    for ep in used:
        if not any(ep in prov for prov in pkgs.values()):
            errs.append(("used-schema-without-provider-record", ep))
    # no empty bookkeeping groups
    for p, v in n.items():
        if v[0] == "G" and "/metador_" in p and not any(q.startswith(p + "/") for q in n):
            errs.append(("empty-bookkeeping-group", p))
    for leaf in ("version", "uuid"):
        if f"{TOC}/{leaf}" not in n:
            errs.append(("toc-header-missing", leaf))
    return {"objects": objs, "links": links, "schemas": sch, "packages": pkgs, "errors": errs, "nodes": n}
