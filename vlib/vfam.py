"""Harness schema families (multi-version, multi-level). Registered through the real
entry-point path by vlib.families.register(). Module must stay importable as `vlib.vfam`."""
from typing import List, Optional, Set

from metador_core.schema import MetadataSchema
from metador_core.schema.decorators import add_const_fields, make_mandatory
from metador_core.schema.ld import LDSchema, ld
from metador_core.schema.types import Duration, Int, NonEmptyStr, PintQuantity, PintUnit, Str


class Base010(MetadataSchema):
    class Plugin:
        name = "fam.base"
        version = (0, 1, 0)

    x: Optional[Int]


class Base020(MetadataSchema):
    class Plugin:
        name = "fam.base"
        version = (0, 2, 0)

    x: Optional[Int]
    y: Optional[Str]


class Base100(MetadataSchema):
    class Plugin:
        name = "fam.base"
        version = (1, 0, 0)

    x: Optional[Int]
    y: Optional[Str]
    w: Optional[List[Int]]


class Mid010(Base020):
    class Plugin:
        name = "fam.mid"
        version = (0, 1, 0)

    z: Optional[Int]


class Mid030(Base020):
    class Plugin:
        name = "fam.mid"
        version = (0, 3, 0)

    z: Optional[Int]
    z2: Optional[Set[Int]]


@make_mandatory("x")
class Leaf010(Mid030):
    class Plugin:
        name = "fam.leaf"
        version = (0, 1, 0)

    q: Optional[NonEmptyStr]


class Aux010(MetadataSchema):
    class Plugin:
        name = "fam.aux"
        version = (0, 1, 0)
        auxiliary = True

    a: Optional[Int]


@ld(context="https://example.org/ctx", type="Thing")
@add_const_fields({"kind": "fam-const", "level": 3})
class Const010(LDSchema):
    class Plugin:
        name = "fam.const"
        version = (0, 1, 0)

    label: NonEmptyStr


@add_const_fields({"kind": "strict", "rank": 1})
class Strict010(MetadataSchema):
    """constants together with extra=forbid: the embedded JSON Schema must list the constants as properties"""

    class Plugin:
        name = "fam.strict"
        version = (0, 1, 0)

    class Config:
        extra = "forbid"

    s: Int


class Units010(MetadataSchema):
    class Plugin:
        name = "fam.units"
        version = (0, 1, 0)

    dur: Optional[Duration]
    unit: Optional[PintUnit]
    qty: Optional[PintQuantity]


class Inner(MetadataSchema):
    n: Int
    more: Optional["Inner"]


Inner.update_forward_refs()


class Nested010(MetadataSchema):
    class Plugin:
        name = "fam.nested"
        version = (0, 1, 0)

    inner: Inner
    many: List[Inner] = []


ALL = [Base010, Base020, Base100, Mid010, Mid030, Leaf010, Aux010, Const010, Strict010, Units010, Nested010]
