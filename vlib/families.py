"""Registration of the harness schema families through the real entry-point path, and
simple instance factories for installed and harness schemas (container engine)."""
from __future__ import annotations

import importlib_metadata

_done = False
PKG = "verif-fam"


class _Dist:
    name = PKG
    version = "1.2.3"


def register():
    """Idempotent. Uses EntryPoint objects + PluginGroup._add_ep + package metadata, like installed plugins."""
    global _done
    if _done:
        return
    from metador_core.plugin.interface import PluginGroup
    from metador_core.plugin.types import to_ep_group_name, to_ep_name
    from metador_core.plugins import schemas
    from metador_core.schema.plugins import PluginPkgMeta

    from . import vfam

    refs = []
    for cls in vfam.ALL:
        epn = to_ep_name(cls.Plugin.name, cls.Plugin.version)
        ep = importlib_metadata.EntryPoint(epn, f"{cls.__module__}:{cls.__qualname__}", to_ep_group_name("schema"))._for(_Dist)
        schemas._add_ep(epn, ep)
        refs.append(schemas.PluginRef(name=cls.Plugin.name, version=cls.Plugin.version))
    PluginGroup._PKG_META[PKG] = PluginPkgMeta(name=PKG, version=(1, 2, 3), plugins={"schema": refs})
    _done = True


# ------------------------------------------------------------------ instance factories

PERSON = {"name": "J D"}


def instance(name: str, version, i: int) -> dict:
    """A valid JSON-like instance of schema (name, version); i varies the content."""
    v = tuple(version)
    if name == "example.matsci.material":
        d = {"materialName": f"m{i}"}
        if i % 2:
            d["density"] = 1.5 + i
        if i % 3 == 0:
            d["crystalGrainType"] = ["single_crystal", "bi_crystal", "poly_crystal"][i % 3]
        return d
    if name == "example.matsci.specimen":
        return {"diameter": 1.0 + i, "gaugeLength": 2.5}
    if name == "example.matsci.instrument":
        return {"instrumentName": f"i{i}", "instrumentModel": "M"}
    if name == "example.matsci.method":
        return {"instrument": instance("example.matsci.instrument", v, i), "specimen": instance("example.matsci.specimen", v, i)}
    if name == "core.dir":
        return {"name": f"d{i}"} if i % 2 else {}
    if name == "core.file":
        return {"filename": f"f{i}.bin", "encodingFormat": "application/octet-stream", "contentSize": i,
                "sha256": "sha256:" + "ab" * 32}
    if name == "core.imagefile":
        d = instance("core.file", v, i)
        d.update(width={"value": 10 + i, "unitText": "px"}, height={"value": 5, "unitText": "px"})
        return d
    if name == "core.bib":
        return {"name": f"b{i}", "abstract": "x", "dateCreated": "2023-01-23", "author": [PERSON], "creator": PERSON}
    if name == "core.person":
        return {"name": f"P {i}"}
    if name == "core.org":
        return {"name": f"O {i}"}
    if name == "core.table":
        return {"name": f"t{i}", "columns": [{"name": "c", "unit": "meter"}, {"name": "d", "unit": "second"}][: 1 + i % 2]}
    if name == "fam.base":
        d = {"x": i}
        if v >= (0, 2, 0) and i % 2:
            d["y"] = f"y{i}"
        if v >= (1, 0, 0):
            d["w"] = [i, 0]
        return d
    if name == "fam.mid":
        d = {"x": i, "z": 2 * i}
        if i % 2:
            d["y"] = "why"
        if v >= (0, 3, 0):
            d["z2"] = [i, i + 1]
        return d
    if name == "fam.leaf":
        return {"x": i, "z": 1, "q": f"q{i}"}
    if name == "fam.aux":
        return {"a": i}
    if name == "fam.const":
        return {"label": f"l{i}", "@id": f"urn:x:{i}"} if i % 2 else {"label": f"l{i}"}
    if name == "fam.strict":
        return {"s": i}
    if name == "fam.units":
        return {"dur": "PT3H4M1S", "unit": "meter * candela", "qty": f"{i + 1} kilogram / second ** 2"}
    if name == "fam.nested":
        return {"inner": {"n": i, "more": {"n": i + 1}}, "many": [{"n": 0}] * (i % 3)}
    raise KeyError(name)


ATTACHABLE = [
    ("example.matsci.material", (0, 1, 0)), ("example.matsci.specimen", (0, 1, 0)), ("example.matsci.method", (0, 1, 0)),
    ("core.dir", (0, 1, 0)), ("core.file", (0, 1, 0)), ("core.imagefile", (0, 1, 0)), ("core.bib", (0, 1, 0)),
    ("core.table", (0, 1, 0)), ("core.person", (0, 1, 0)),
    ("fam.base", (0, 1, 0)), ("fam.base", (0, 2, 0)), ("fam.base", (1, 0, 0)), ("fam.mid", (0, 1, 0)), ("fam.mid", (0, 3, 0)),
    ("fam.leaf", (0, 1, 0)), ("fam.const", (0, 1, 0)), ("fam.strict", (0, 1, 0)), ("fam.units", (0, 1, 0)), ("fam.nested", (0, 1, 0)),
]
