"""pytest plugin (DESIGN 3.8): runs the repository's own tests as an extra workload under two monitors.

  ledger (C02)  every container that has been committed (on-disk user block carries a payload hash) must stay
                byte-identical for the rest of the test, unless the test itself truncates/deletes the record
                (mode 'w', delete_files, unlink by the test) -- checked after every record-level call and at teardown
  toc    (C06)  after every mutating MetadorContainer / MetadorMeta call (ok or raised) the TOC oracle scans the
                raw container

The tests' own assertions are not used as oracle. Findings go to $VERIF_PYTEST_REPORT (JSON).
usage: pytest -p vlib.pytest_monitors ...   (PYTHONPATH must contain /verif)
"""
from __future__ import annotations

import functools
import json
import os
import traceback
from pathlib import Path

REPORT = {"ledger_checks": 0, "toc_scans": 0, "calls": {}, "findings": [], "tests": 0}
_ledger = None
_current = [""]


def _finding(kind, detail):
    if len(REPORT["findings"]) < 50:
        REPORT["findings"].append({"test": _current[0], "kind": kind, "detail": detail[:400]})


def _install():
    global _ledger
    from metador_core.container import interface as CI
    from metador_core.container import wrappers as CW
    from metador_core.ih5 import record as R

    from . import fsmon, receng, tocoracle

    _ledger = fsmon.Ledger()

    def note(rec):
        try:
            if rec is None or getattr(rec, "_closed", True):
                return
            for p in rec.ih5_files:
                if receng.is_committed_on_disk(p):
                    _ledger.add(p)
                    if receng.sidecar(p).exists():
                        _ledger.add(receng.sidecar(p))
        except Exception:
            pass

    def check(where):
        REPORT["ledger_checks"] += 1
        for p, what in _ledger.check():
            if what == "vanished":  # tests clean up after themselves; only content changes count here
                _ledger.forget(p)
                continue
            _finding("ledger", f"{Path(p).name}: {what} after {where}")
            _ledger.forget(p)

    def wrap_rec(name):
        orig = getattr(R.IH5Record, name)

        @functools.wraps(orig)
        def w(self, *a, **k):
            REPORT["calls"][name] = REPORT["calls"].get(name, 0) + 1
            try:
                return orig(self, *a, **k)
            finally:
                check(name)
                note(self)
        setattr(R.IH5Record, name, w)

    for n in ("commit_patch", "create_patch", "discard_patch", "merge_files", "close"):
        wrap_rec(n)
    orig_del = R.IH5Record.delete_files.__func__

    def delete_files(cls, record):
        for p in cls.find_files(Path(record)):
            _ledger.forget(p)
            _ledger.forget(receng.sidecar(p))
        return orig_del(cls, record)
    R.IH5Record.delete_files = classmethod(delete_files)
    orig_create = R.IH5Record._create.__func__

    def _create(cls, record, truncate=False):
        if truncate:
            for p in cls.find_files(Path(record)):
                _ledger.forget(p)
                _ledger.forget(receng.sidecar(p))
        return orig_create(cls, record, truncate)
    R.IH5Record._create = classmethod(_create)

    # ---- TOC oracle after mutating container calls
    def scan(mc, where):
        try:
            raw = mc.__wrapped__
            if not raw:
                return
            sc = tocoracle.scan(raw)
        except Exception:
            return
        REPORT["toc_scans"] += 1
        if sc["errors"]:
            _finding("toc", f"after {where}: {sc['errors'][0]}")

    def wrap_grp(name):
        orig = getattr(CW.MetadorGroup, name)

        @functools.wraps(orig)
        def w(self, *a, **k):
            REPORT["calls"]["group." + name] = REPORT["calls"].get("group." + name, 0) + 1
            try:
                return orig(self, *a, **k)
            finally:
                scan(self._self_container, "MetadorGroup." + name)
        setattr(CW.MetadorGroup, name, w)

    for n in ("__setitem__", "__delitem__", "copy", "move", "create_group", "create_dataset", "require_group", "require_dataset"):
        wrap_grp(n)

    def wrap_meta(name):
        orig = getattr(CI.MetadorMeta, name)

        @functools.wraps(orig)
        def w(self, *a, **k):
            REPORT["calls"]["meta." + name] = REPORT["calls"].get("meta." + name, 0) + 1
            try:
                return orig(self, *a, **k)
            finally:
                scan(self._mc, "MetadorMeta." + name)
        setattr(CI.MetadorMeta, name, w)

    for n in ("__setitem__", "__delitem__"):
        wrap_meta(n)


def pytest_configure(config):
    try:
        _install()
    except Exception:
        REPORT["findings"].append({"test": "", "kind": "harness", "detail": traceback.format_exc()[-400:]})


def pytest_runtest_setup(item):
    _current[0] = item.nodeid
    REPORT["tests"] += 1


def pytest_runtest_teardown(item):
    if _ledger is not None:
        REPORT["ledger_checks"] += 1
        for p, what in _ledger.check():
            if what != "vanished":
                _finding("ledger", f"{Path(p).name}: {what} at teardown")
            _ledger.forget(p)
        _ledger.entries.clear()
        _ledger.bytes.clear()


def pytest_sessionfinish(session, exitstatus):
    out = os.environ.get("VERIF_PYTEST_REPORT")
    if out:
        Path(out).write_text(json.dumps(REPORT, indent=1))
