"""pytest plugin (DESIGN 3.8): runs the repository's own tests as an extra workload under two monitors.

  ledger (C02)  every container that has been committed (on-disk user block carries a payload hash) must stay
                byte-identical for the rest of the test, unless the test itself truncates/deletes the record
                (mode 'w', delete_files, unlink by the test) -- checked after every record-level call and at teardown
  toc    (C06)  after every mutating MetadorContainer / MetadorMeta call (ok or raised) the TOC oracle scans the
                raw container

The tests' own assertions are not used as oracle. Findings go to $VERIF_PYTEST_REPORT (JSON).
usage: pytest -p vlib.pytest_monitors ...   (PYTHONPATH must contain /verif)
"""
from __future__ import annotations

import functools
import json
import os
import traceback
from pathlib import Path

REPORT = {"ledger_checks": 0, "toc_scans": 0, "calls": {}, "findings": [], "tests": 0}
_ledger = None
_current = [""]


def _finding(kind, detail):
    if len(REPORT["findings"]) < 50:
        REPORT["findings"].append({"test": _current[0], "kind": kind, "detail": detail[:400]})


def _install():
    global _ledger
    from metador_core.container import interface as CI
    from metador_core.container import wrappers as CW
    from metador_core.ih5 import record as R

    from . import fsmon, receng, tocoracle

    _ledger = fsmon.Ledger()
    depth = {"merge": 0}

    # Tests that tamper with container files on purpose (to see an open fail) do so with Python-level file operations from
    # test code; h5py works below the audit layer and metador_core's own Python-level writes come from its modules. A
    # write-open / truncate / rename of a ledgered file issued from a frame of the test suite takes the file out of the ledger.
    import sys

    def _api_entry(f):
        """Name of the outermost metador_core function of the contiguous metador_core frames above f (the function the
        test called), None if the write does not come from the library at all. A test calling IH5UserBlock.save /
        IH5Manifest.save itself ('save') is tampering, not a record-level operation."""
        entry = None
        for _ in range(40):
            if f is None:
                break
            fn = f.f_code.co_filename
            if "/metador_core/" in fn:
                entry = f.f_code.co_name
            elif entry is not None and "/tests/" in fn:
                break
            f = f.f_back
        return entry

    import h5py
    orig_h5init = h5py.File.__init__

    def h5init(self, name, mode="r", *a, **k):
        try:
            if mode != "r" and _ledger is not None and isinstance(name, (str, bytes, os.PathLike)) and _api_entry(sys._getframe(1)) is None:
                q = os.path.abspath(os.fsdecode(name))
                if q in _ledger.entries:
                    _ledger.forget(q)
                    REPORT["tampered_by_test"] = REPORT.get("tampered_by_test", 0) + 1
        except Exception:
            pass
        return orig_h5init(self, name, mode, *a, **k)
    h5py.File.__init__ = h5init

    def audit(event, args):
        if event not in ("open", "os.truncate", "os.rename", "os.remove", "shutil.copyfile", "shutil.move") or _ledger is None or not _ledger.entries:
            return
        try:
            if event == "open":
                path, mode = args[0], args[1] or ""
                flags = args[2] if len(args) > 2 and isinstance(args[2], int) else 0
                if not (set("wax+") & set(str(mode))) and not (flags & (os.O_WRONLY | os.O_RDWR)):
                    return
                paths = [path]
            elif event in ("shutil.copyfile", "shutil.move", "os.rename"):
                paths = [args[0], args[1]]
            else:
                paths = [args[0]]
            if _api_entry(sys._getframe(1)) not in (None, "save"):
                return  # written by the library on behalf of a record-level call
            for q in paths:
                if isinstance(q, (str, bytes, os.PathLike)):
                    q = os.path.abspath(os.fsdecode(q))
                    if q in _ledger.entries:
                        _ledger.forget(q)
                        REPORT["tampered_by_test"] = REPORT.get("tampered_by_test", 0) + 1
        except Exception:
            pass
    sys.addaudithook(audit)

    def note(rec):
        try:
            if depth["merge"]:
                return  # the merge target is under construction until merge_files returns
            if rec is None or getattr(rec, "_closed", True):
                return
            for p in rec.ih5_files:
                if receng.is_committed_on_disk(p):
                    _ledger.add(os.path.abspath(p))
                    if receng.sidecar(p).exists():
                        _ledger.add(os.path.abspath(receng.sidecar(p)))
        except Exception:
            pass

    def check(where):
        REPORT["ledger_checks"] += 1
        for p, what in _ledger.check():
            if what == "vanished":  # tests clean up after themselves; only content changes count here
                _ledger.forget(p)
                continue
            _finding("ledger", f"{Path(p).name}: {what} after {where}")
            _ledger.forget(p)

    def wrap_rec(name):
        orig = getattr(R.IH5Record, name)

        @functools.wraps(orig)
        def w(self, *a, **k):
            REPORT["calls"][name] = REPORT["calls"].get(name, 0) + 1
            if name == "merge_files":
                depth["merge"] += 1
            try:
                return orig(self, *a, **k)
            finally:
                if name == "merge_files":
                    depth["merge"] -= 1
                check(name)
                note(self)
        setattr(R.IH5Record, name, w)

    for n in ("commit_patch", "create_patch", "discard_patch", "merge_files", "close"):
        wrap_rec(n)
    orig_del = R.IH5Record.delete_files.__func__

    def delete_files(cls, record):
        for p in cls.find_files(Path(record)):
            _ledger.forget(os.path.abspath(p))
            _ledger.forget(os.path.abspath(receng.sidecar(p)))
        return orig_del(cls, record)
    R.IH5Record.delete_files = classmethod(delete_files)
    orig_create = R.IH5Record._create.__func__

    def _create(cls, record, truncate=False):
        if truncate:
            for p in cls.find_files(Path(record)):
                _ledger.forget(os.path.abspath(p))
                _ledger.forget(os.path.abspath(receng.sidecar(p)))
        return orig_create(cls, record, truncate)
    R.IH5Record._create = classmethod(_create)

    # ---- TOC oracle after mutating container calls
    def scan(mc, where):
        try:
            raw = mc.__wrapped__
            if not raw:
                return
            sc = tocoracle.scan(raw)
        except Exception:
            return
        REPORT["toc_scans"] += 1
        if sc["errors"]:
            _finding("toc", f"after {where}: {sc['errors'][0]}")

    def wrap_grp(name):
        orig = getattr(CW.MetadorGroup, name)

        @functools.wraps(orig)
        def w(self, *a, **k):
            REPORT["calls"]["group." + name] = REPORT["calls"].get("group." + name, 0) + 1
            try:
                return orig(self, *a, **k)
            finally:
                scan(self._self_container, "MetadorGroup." + name)
        setattr(CW.MetadorGroup, name, w)

    for n in ("__setitem__", "__delitem__", "copy", "move", "create_group", "create_dataset", "require_group", "require_dataset"):
        wrap_grp(n)

    def wrap_meta(name):
        orig = getattr(CI.MetadorMeta, name)

        @functools.wraps(orig)
        def w(self, *a, **k):
            REPORT["calls"]["meta." + name] = REPORT["calls"].get("meta." + name, 0) + 1
            try:
                return orig(self, *a, **k)
            finally:
                scan(self._mc, "MetadorMeta." + name)
        setattr(CI.MetadorMeta, name, w)

    for n in ("__setitem__", "__delitem__"):
        wrap_meta(n)


def pytest_configure(config):
    try:
        _install()
    except Exception:
        REPORT["findings"].append({"test": "", "kind": "harness", "detail": traceback.format_exc()[-400:]})


def pytest_runtest_setup(item):
    _current[0] = item.nodeid
    REPORT["tests"] += 1


def pytest_runtest_teardown(item):
    if _ledger is not None:
        REPORT["ledger_checks"] += 1
        for p, what in _ledger.check():
            if what != "vanished":
                _finding("ledger", f"{Path(p).name}: {what} at teardown")
            _ledger.forget(p)
        _ledger.entries.clear()
        _ledger.bytes.clear()


def pytest_sessionfinish(session, exitstatus):
    out = os.environ.get("VERIF_PYTEST_REPORT")
    if out:
        Path(out).write_text(json.dumps(REPORT, indent=1))
