"""State-guided history generator for data-level operations (IH5 engine).

Paths are drawn mostly from nodes that exist in the reference tree, because blind random
paths almost never reach interesting states (most operations then fail on both sides).
"""
from __future__ import annotations

from .h5eng import abspath, is_ds, is_sub, token

KEY_POOL = ["a", "b", "c", "d", ".x", "a.b", "~", "!", "x-1", "A", "_", "0"]
ALPHABET = [chr(c) for c in range(0x21, 0x7F) if chr(c) not in "@/"]


def pick_keys(rng):
    n = rng.randint(3, 5)
    keys = rng.sample(KEY_POOL, n)
    if rng.random() < 0.15:
        k = "".join(rng.choice(ALPHABET) for _ in range(rng.randint(1, 4)))
        if k not in (".", ".."):
            keys.append(k)
    return keys


def tree_paths(root):
    nodes, groups = [], ["/"]
    def f(name, n):
        nodes.append("/" + name)
        if not is_ds(n):
            groups.append("/" + name)
    root.visititems(f)
    return nodes, groups


class DataGen:
    """Generates one op at a time from the live reference tree `root` (plain h5py)."""

    W = {"set": 20, "cds": 4, "cip": 2, "grp": 8, "rgrp": 6, "del": 14, "sattr": 12, "dattr": 6,
         "copy": 8, "move": 6, "commit": 14, "reopen": 2}

    def __init__(self, rng, keys=None, weights=None, allow_self_copy=True, boundaries=True):
        self.rng = rng
        self.keys = keys or pick_keys(rng)
        self.w = dict(self.W)
        if weights:
            self.w.update(weights)
        if not boundaries:
            self.w["commit"] = self.w["reopen"] = 0
        self.allow_self_copy = allow_self_copy
        self.i = 0

    def fresh_path(self, nodes, groups):
        rng = self.rng
        if groups and rng.random() < 0.6:
            base = rng.choice(groups).rstrip("/")
            return base + "/" + "/".join(rng.choice(self.keys) for _ in range(rng.randint(1, 2)))
        return "/" + "/".join(rng.choice(self.keys) for _ in range(rng.randint(1, 3)))

    def any_path(self, nodes, groups, p_exist=0.7):
        rng = self.rng
        if nodes and rng.random() < p_exist:
            p = rng.choice(nodes)
        else:
            p = self.fresh_path(nodes, groups)
        if rng.random() < 0.6:
            p = p.lstrip("/")  # relative from root
        return p

    def next(self, root):
        rng = self.rng
        self.i += 1
        nodes, groups = tree_paths(root)
        kinds = [k for k, w in self.w.items() if w > 0]
        k = rng.choices(kinds, [self.w[x] for x in kinds])[0]
        if k == "commit":
            return ["commit"]
        if k == "reopen":
            return ["reopen", rng.choice(["r+", "a"])]
        if k == "set":
            op = ["set", self.any_path(nodes, groups, 0.35), token(rng, self.i)]
        elif k == "cds":
            r = rng.random()
            tok = ["arr", [self.i, self.i + 1, self.i + 2, self.i + 3]] if r < 0.75 else token(rng, self.i)
            kw = rng.choice([{"compression": "gzip"}, {"compression": "gzip", "compression_opts": 1}, {"compression": "lzf"}, {},
                             {"dtype": "f8"}, {"compression": "gzip", "dtype": "i4"}])
            if tok[0] != "arr":
                # h5py creates missing parent groups before it finds out that a scalar cannot take filters / a value cannot be
                # converted, and leaves them behind: such failing calls have no defined tree semantics and are not generated
                kw = {}
                if tok[0] == "unstorable":
                    tok = ["int", self.i]
            if r > 0.92:
                tok, kw = None, {"shape": [rng.randint(1, 3)], "dtype": rng.choice(["i8", "f4"]), **({"compression": "gzip"} if rng.random() < 0.5 else {})}
            # mostly top-level names (a merge walks the top level itself, everything below through the generic copy)
            p = "/" + rng.choice(self.keys) + str(self.i % 7) if rng.random() < 0.5 else self.any_path(nodes, groups, 0.2)
            op = ["cds", p, tok, kw]
        elif k == "cip":
            # IH5's copy_into_patch on a dataset (a no-op for the tree; nothing happens on the plain reference)
            ds = [n for n in nodes if n not in groups]
            op = ["cip", rng.choice(ds) if ds and rng.random() < 0.9 else self.any_path(nodes, groups, 0.5)]
        elif k == "grp":
            op = ["grp", self.any_path(nodes, groups, 0.25)]
        elif k == "rgrp":
            op = ["rgrp", self.any_path(nodes, groups, 0.5)]
        elif k == "del":
            op = ["del", self.any_path(nodes, groups, 0.9) if rng.random() > 0.03 else "/"]
        elif k == "sattr":
            p = "/" if rng.random() < 0.15 else self.any_path(nodes, groups, 0.92)
            op = ["sattr", p, rng.choice(self.keys), token(rng, self.i)]
        elif k == "dattr":
            p = "/" if rng.random() < 0.15 else self.any_path(nodes, groups, 0.92)
            key = rng.choice(self.keys)
            try:
                ks = list(root[p].attrs.keys())
                if ks and rng.random() < 0.85:
                    key = rng.choice(ks)
            except Exception:
                pass
            op = ["dattr", p, key]
        else:  # copy / move
            src = self.any_path(nodes, groups, 0.9)
            dst = self.any_path(nodes, groups, 0.2)
            if rng.random() < 0.04:
                src = "/"  # the root group as source (plain HDF5: copy works, move is refused)
            if k == "copy" and self.allow_self_copy and groups[1:] and rng.random() < 0.12:
                src = rng.choice(groups[1:])
                dst = src + "/" + rng.choice(self.keys)
                if rng.random() < 0.5:
                    dst += "/" + rng.choice(self.keys)
            if is_sub(abspath("/", src), abspath("/", dst)):
                if k == "move" or not self.allow_self_copy:
                    return self.next(root)  # excluded by the property
            op = [k, src, dst]
        # a trailing slash does not change which node is meant
        if rng.random() < 0.05 and op[0] in ("set", "grp", "rgrp", "del", "sattr", "dattr", "copy", "move") and op[1] not in ("/", ""):
            j = 2 if op[0] in ("copy", "move") and rng.random() < 0.5 else 1
            if op[j] != "/":
                op = op[:j] + [op[j] + "/"] + op[j + 1:]
        # sometimes issue the operation through a sub-group handle: with a relative path where the target lies below the
        # group, and with ABSOLUTE paths from any group (h5py resolves those from the root, whatever the handle)
        r = rng.random()
        if r < 0.2 and groups[1:]:
            npath = 2 if op[0] in ("copy", "move") else 1
            # prefer a group that is an ancestor of one of the paths (so that relative paths from the handle occur)
            anc = [g for g in groups[1:] if any(abspath("/", op[j]).startswith(g + "/") for j in range(1, 1 + npath))]
            g = rng.choice(anc) if anc and rng.random() < 0.7 else rng.choice(groups[1:])
            new = list(op)
            for j in range(1, 1 + npath):
                p = abspath("/", op[j])
                if p.startswith(g + "/") and rng.random() < 0.75:
                    new[j] = p[len(g) + 1:]
                else:
                    new[j] = p
            op = ["at", g, new]
        return op
