import os, sys, tempfile, h5py, shutil
sys.path.insert(0,"/tmp/x/fam")
from pathlib import Path
d=Path(tempfile.mkdtemp(dir="/dev/shm")); os.chdir(d)
import importlib_metadata
from metador_core.plugins import schemas
from metador_core.plugin.interface import PluginGroup
from metador_core.plugin.types import to_ep_name, to_ep_group_name
from metador_core.schema.plugins import PluginPkgMeta
from metador_core.container import MetadorContainer
import vfam
class FakeDist:
    name="verif-fam"; version="1.2.3"
eps=[]
for cls in (vfam.Base010, vfam.Base020, vfam.Mid):
    epn=to_ep_name(cls.Plugin.name, cls.Plugin.version)
    ep=importlib_metadata.EntryPoint(epn, f"{cls.__module__}:{cls.__qualname__}", to_ep_group_name("schema"))._for(FakeDist)
    eps.append(ep)
refs=[schemas.PluginRef(name=c.Plugin.name, version=c.Plugin.version) for c in (vfam.Base010, vfam.Base020, vfam.Mid)]
PluginGroup._PKG_META["verif-fam"]=PluginPkgMeta(name="verif-fam", version=(1,2,3), plugins={"schema":refs})
for ep in eps: schemas._add_ep(ep.name, ep)
print("versions fam.base:", [r.version for r in schemas.versions("fam.base")])
M=schemas.get("fam.mid",(0,1,0)); print(M, schemas.parent_path("fam.mid",(0,1,0)))
m=MetadorContainer("c.h5","w")
m["d"]=1
m["d"].meta["fam.mid"]=M(x=1,y="a",z=3)
print(list(m["d"].meta.query("fam.base")), m["d"].meta.get("fam.base"))
print(m.metador.schemas.provider(M.Plugin.ref()).name)
# copy name= effect
m["g/e"]=2
before=[]; m.__wrapped__.visit(before.append)
try: m.copy(m["g/e"], m["g"], name="metador_evil")
except Exception as e: print("raised", type(e).__name__)
after=[]; m.__wrapped__.visit(after.append)
print("raw changed:", sorted(set(after)-set(before)))
m.close(); os.chdir("/"); shutil.rmtree(d)
