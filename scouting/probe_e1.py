import numpy as np, h5py, tempfile, os
from metador_core.ih5.record import IH5Record
d=tempfile.mkdtemp(dir="/tmp/x"); os.chdir(d)
def dump(r):
    out={}
    out['/@']={k:repr(v) for k,v in r.attrs.items()}
    def f(name,node):
        if hasattr(node,'ndim'): out[name]=('D',repr(node[()]),{k:repr(v) for k,v in node.attrs.items()})
        else: out[name]=('G',{k:repr(v) for k,v in node.attrs.items()})
    r.visititems(f)
    return out
r=IH5Record("rec","w")
r["a/x"]=1
r["a"].attrs["k"]=5
r.commit_patch()
r.create_patch()
del r["a"]
r.create_group("a")
r["a/y"]=2
print(1,dump(r))
r.commit_patch(); r.create_patch()
r["a/z"]=3     # touch only
print(2,dump(r))
r.commit_patch(); r.create_patch()
r["a"].attrs["q"]=1
print(3,dump(r))
r.close()
