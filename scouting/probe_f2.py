import os, sys, tempfile, traceback, h5py, random, shutil, collections, json, gc
from pathlib import Path
from uuid import UUID
from metador_core.container import MetadorContainer
from metador_core.ih5.container import IH5Record
from metador_core.plugins import schemas
from metador_core.container import utils as M
base=Path(tempfile.mkdtemp(dir="/dev/shm"))
Mat=schemas.get("example.matsci.material",(0,1,0)); Dir=schemas.get("core.dir",(0,1,0)); Bib=schemas.get("core.bib",(0,1,0))
Person=Bib.Fields.author.schemas.Person
def inst(name,i):
    if name=="example.matsci.material": return Mat(materialName=f"m{i}")
    if name=="core.dir": return Dir(name=f"d{i}")
    if name=="core.bib": return Bib(name=f"b{i}",abstract="x",dateCreated="2023-01-23",author=[Person(name="J D")],creator=Person(name="J D"))
SCH=["example.matsci.material","core.dir","core.bib"]
KEYS=["a","b","c"]
def rawnodes(raw):
    out={}
    def f(name,node): out["/"+name]=("D",node[()]) if hasattr(node,"ndim") else ("G",)
    raw.visititems(f); return out
def toc_check(raw):
    n=rawnodes(raw); errs=[]
    objs={}; 
    for p,v in n.items():
        segs=p.split("/")
        if segs[-1].count("=")==1 and len(segs)>=2 and segs[-2].startswith("metador_meta_"):
            ep,uu=segs[-1].split("=")
            md=segs[-2]; par="/".join(segs[:-2])
            node = (par or "/") if md=="metador_meta_" else par+"/"+md[len("metador_meta_"):]
            if node!="/" and node not in n: errs.append(("orphan",p))
            elif node!="/" and md!="metador_meta_" and n[node][0]!="D": errs.append(("meta-kind",p))
            if uu in objs: errs.append(("dup-uuid",uu))
            objs[uu]=(ep,p)
    links={}
    for p,v in n.items():
        if p.startswith("/metador_container/links/") and v[0]=="D":
            _,_,_,ep,uu=p.split("/")
            links[uu]=(ep,v[1].decode())
    for uu,(ep,t) in links.items():
        if uu not in objs: errs.append(("dangling-link",uu,t))
        elif objs[uu]!=(ep,t): errs.append(("link-mismatch",uu,t,objs[uu]))
    for uu in objs:
        if uu not in links: errs.append(("unlinked",objs[uu]))
    used={ep for ep,_ in objs.values()}
    sch={p.split("/")[3] for p in n if p.startswith("/metador_container/schemas/") and p.count("/")==3}
    lg={p.split("/")[3] for p in n if p.startswith("/metador_container/links/") and p.count("/")==3}
    if sch!=used: errs.append(("schemas!=used",sorted(sch),sorted(used)))
    if lg!=used: errs.append(("linkgroups!=used",sorted(lg),sorted(used)))
    for p,v in n.items():
        if v[0]=="G" and ("/metador_" in p) and not any(q.startswith(p+"/") for q in n): errs.append(("empty-group",p))
    return errs
def userview(mc):
    out={}
    def f(name,node):
        e=["D" if hasattr(node,"ndim") else "G"]
        e.append({k:json.loads(bytes(node.meta[k])) for k in node.meta.keys()})
        out[name]=e
    mc.visititems(f)
    out["/"]=["G",{k:json.loads(bytes(mc.meta[k])) for k in mc.meta.keys()}]
    q={s:sorted(x.name for x in mc.metador.query(s)) for s in SCH}
    return out,q
class Model:
    def __init__(s): s.nodes={"":"G"}
    def existing(s,rng,kind=None):
        c=[p for p,k in s.nodes.items() if p and (kind is None or k==kind)]
        return rng.choice(c) if c else None
def gen_op(rng,paths,i):
    def anyp():
        if paths and rng.random()<0.7: return rng.choice(paths)
        return "/".join(rng.choice(KEYS) for _ in range(rng.randint(1,3)))
    k=rng.choice(["set","grp","del","meta","meta","delmeta","copy","move","commit","reopen","copy_nometa"])
    if k=="set": return ("set",anyp(),i)
    if k=="grp": return ("grp",anyp())
    if k=="del": return ("del",anyp())
    if k=="meta": return ("meta",anyp() if rng.random()<.9 else "/",rng.choice(SCH),i)
    if k=="delmeta": return ("delmeta",anyp() if rng.random()<.9 else "/",rng.choice(SCH))
    if k in("copy","copy_nometa"): return (k,anyp(),anyp())
    if k=="move": return ("move",anyp(),anyp())
    return (k,)
def is_sub(a,b): return b==a or b.startswith(a+"/")
def apply(mc,op):
    k=op[0]
    if k=="set": mc[op[1]]=op[2]
    elif k=="grp": mc.create_group(op[1])
    elif k=="del": del mc[op[1]]
    elif k=="meta": mc[op[1]].meta[op[2]]=inst(op[2],op[3])
    elif k=="delmeta": del mc[op[1]].meta[op[2]]
    elif k=="copy": mc.copy(op[1],op[2])
    elif k=="copy_nometa": mc.copy(op[1],op[2],without_meta=True)
    elif k=="move": mc.move(op[1],op[2])
def run(seed):
    rng=random.Random(seed); dd=base/str(seed); dd.mkdir()
    H=MetadorContainer(h5py.File(dd/"h.h5","w")); I=MetadorContainer(IH5Record(dd/"i","w"))
    ops=[]
    try:
        for i in range(rng.randint(4,22)):
            paths=[]; H.visit(paths.append)
            op=gen_op(rng,paths,i)
            if op[0] in("move","copy","copy_nometa") and is_sub(op[1].strip("/"),op[2].strip("/")): continue
            ops.append(op)
            if op[0]=="commit":
                I.__wrapped__.commit_patch(); I.__wrapped__.create_patch(); continue
            if op[0]=="reopen":
                H.close(); H=MetadorContainer(h5py.File(dd/"h.h5","r+"))
                I.close(); I=MetadorContainer(IH5Record(dd/"i","r+")); 
            else:
                res=[]
                for mc in (H,I):
                    try: apply(mc,op); res.append("ok")
                    except Exception as e: res.append("ERR:"+type(e).__name__)
                if res[0][:3]!=res[1][:3]: return ("STATUS",op,res,ops)
            for nm,mc in (("h5",H),("ih5",I)):
                e=toc_check(mc.__wrapped__)
                if e: return ("TOC-"+nm,op,e[:3],ops)
            uh,ui=userview(H),userview(I)
            def strip(u):  # ids differ
                return json.loads(json.dumps(u))
            if uh!=ui: return ("VIEW",op,[k for k in set(uh[0])|set(ui[0]) if uh[0].get(k)!=ui[0].get(k)][:3] or (uh[1],ui[1]),ops)
    finally:
        for mc in (H,I):
            try: mc.close()
            except Exception: pass
        gc.collect(); shutil.rmtree(dd,ignore_errors=True)
n=int(sys.argv[1]); fails=collections.Counter(); seen={}
for s in range(n):
    try: r=run(s)
    except Exception as e:
        r=("HARNESS",type(e).__name__,str(e)[:100],traceback.format_exc().splitlines()[-3:])
    if r:
        key=(r[0],)+((r[1][0],str(r[2])[:80]) if r[0]!="HARNESS" else (r[1],r[2][:60]))
        fails[key]+=1
        if key not in seen or len(str(r[-1]))<len(str(seen[key][-1])): seen[key]=r
for k,v in fails.most_common(20): print(v,k)
print()
for k,r in list(seen.items())[:12]: print(k,"\n    ",r)
shutil.rmtree(base)
