import os, tempfile, traceback
from pathlib import Path
d=tempfile.mkdtemp(dir="/tmp/x"); os.chdir(d)
from metador_core.ih5.record import IH5Record
from metador_core.ih5.manifest import IH5MFRecord
for cls in (IH5Record, IH5MFRecord):
    r=cls(f"rec{cls.__name__[:4]}","w"); r["a"]=1; r.commit_patch(); r.create_patch(); r["b"]=2; r.commit_patch()
    before=[m.json() for m in r.ih5_meta]
    r.merge_files(Path(d)/f"merged{cls.__name__[:4]}")
    after=[m.json() for m in r.ih5_meta]
    print(cls.__name__, "meta unchanged by merge:", before==after)
    if before!=after: print(before[-1]); print(after[-1])
    r.close()
# C16
from metador_core.plugin.interface import PluginGroup
from metador_core.plugins import schemas
from importlib_metadata import EntryPoint
class PGX(PluginGroup):
    class Plugin:
        name="xgrp"; version=(0,1,0); plugin_class=object
    def check_plugin(self,n,p): pass
from metador_core.schema.plugins import PluginBase
eps={f"aa.bb__{v}": EntryPoint(f"aa.bb__{v}","os:path","metador_xgrp") for v in ("0.1.0","0.2.0","1.0.0")}
from metador_core.plugin.interface import PGPlugin
PGX.Plugin=PGPlugin.parse_info(PGX.Plugin)
g=PGX(eps)
print("versions", [r.version for r in g.versions("aa.bb")])
print("resolve (0,1,0)", g.resolve("aa.bb",(0,1,0)))
