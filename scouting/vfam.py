from typing import Optional
from metador_core.schema import MetadataSchema
class Base010(MetadataSchema):
    class Plugin:
        name="fam.base"; version=(0,1,0)
    x: Optional[int]
class Base020(MetadataSchema):
    class Plugin:
        name="fam.base"; version=(0,2,0)
    x: Optional[int]
    y: Optional[str]
class Mid(Base020):
    class Plugin:
        name="fam.mid"; version=(0,1,0)
    z: Optional[int]
