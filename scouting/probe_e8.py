import os, tempfile, traceback, h5py, json, hashlib, gc, shutil
import numpy as np
from pathlib import Path
d=Path(tempfile.mkdtemp(dir="/tmp/x")); os.chdir(d)
from metador_core.ih5.manifest import IH5MFRecord
from metador_core.ih5.skeleton import IH5Skeleton
def dump(r):
    out={'/@':sorted(r.attrs.keys())}
    def f(name,node):
        if hasattr(node,'ndim'): out[name]=('D',repr(node[()]),sorted(node.attrs.keys()))
        else: out[name]=('G',sorted(node.attrs.keys()))
    r.visititems(f); return out
r=IH5MFRecord("real","w"); r["a/x"]=1; r["a"].attrs["k"]=5; r.attrs["root"]=1; r["b"]=np.void(b"abc\x00\x00")
r.commit_patch(manifest_exts={"foo":1}); r.create_patch(); del r["a/x"]; r["a/y"]=2; r.commit_patch()
print(r.manifest.manifest_exts)
mf=IH5MFRecord._manifest_filepath(r.ih5_files[-1]); print(mf)
real_files=r.ih5_files; real_dump=dump(r); real_skel=IH5Skeleton.for_record(r)
r.close()
os.mkdir("stubdir")
s=IH5MFRecord.create_stub(d/"stubdir"/"real", mf)
print("stub dump", dump(s))
sk=IH5Skeleton.for_record(s)
print("skel eq paths", {k:(v.node_type,sorted(v.attrs)) for k,v in sk.__root__.items()}=={k:(v.node_type,sorted(v.attrs)) for k,v in real_skel.__root__.items()})
try: s.merge_files(d/"stubdir"/"m"); print("merge allowed!!")
except Exception as e: print("merge refused:", e)
s.create_patch()
del s["a/y"]; s["c"]=7; s["a"].attrs["k2"]=1
s.commit_patch()
pf=s.ih5_files[-1]; print(pf)
s.close()
shutil.copy(pf, d/pf.name); shutil.copy(str(pf)+"mf.json", d/(pf.name+"mf.json"))
r2=IH5MFRecord("real","r"); print(dump(r2)); r2.close()
# trailing NUL
print(repr(np.void(b"abc\x00\x00").tobytes()))
