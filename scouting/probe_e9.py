import os, tempfile, traceback, h5py
from pathlib import Path
d=tempfile.mkdtemp(dir="/tmp/x"); os.chdir(d)
from metador_core.container import MetadorContainer
from metador_core.ih5.container import IH5Record
from metador_core.plugins import schemas
Mat=schemas.get("example.matsci.material",(0,1,0))
for drv in (h5py.File, IH5Record):
    print("=====",drv.__name__)
    m=MetadorContainer(f"c{drv.__name__}", "w", driver=drv)
    m["g/d"]=1
    try: print("reversed:", list(reversed(m)))
    except Exception as e: print("reversed err", type(e).__name__, e)
    mm=m["g/d"].meta
    mm["example.matsci.material"]=Mat(materialName="iron")
    try: print("held meta get:", mm.get("example.matsci.material"), list(mm.keys()), "example.matsci.material" in mm)
    except Exception as e: print("held meta err", type(e).__name__, e)
    try:
        mm["example.matsci.material"]=Mat(materialName="iron2"); print("second set allowed!!")
    except Exception as e: print("second set:", type(e).__name__)
    try:
        del mm["example.matsci.material"]; print("held del ok")
    except Exception as e: print("held del err", type(e).__name__, e)
    try:
        m.copy(m["g/d"], m["g"], name="metador_evil"); print("copy name= reserved allowed!!", list(m.__wrapped__["g"].keys()))
    except Exception as e: print("copy name= rejected", type(e).__name__, e)
    g=m["g"].restrict(read_only=True)
    try:
        g.file["zzz"]=1; print("escape via .file!!")
    except Exception as e: print(".file blocked", type(e).__name__)
    m.close()
