import os, sys, tempfile, traceback, h5py, random, shutil, collections
import numpy as np
from pathlib import Path
from metador_core.ih5.record import IH5Record
base=Path(tempfile.mkdtemp(dir="/tmp/x"))
KEYS=["a","b","c"]
def rpath(rng, maxd=3):
    n=rng.randint(1,maxd); p="/".join(rng.choice(KEYS) for _ in range(n))
    return ("/" if rng.random()<0.3 else "")+p
def dump(r):
    out={'/@':{k:repr(v) for k,v in r.attrs.items()}}
    def f(name,node):
        if hasattr(node,'ndim'): out[name]=('D',repr(node[()]),{k:repr(v) for k,v in node.attrs.items()})
        else: out[name]=('G',{k:repr(v) for k,v in node.attrs.items()})
    r.visititems(f); return out
def gen(rng,n):
    ops=[]; ctr=0
    for _ in range(n):
        k=rng.choice(["set","set","grp","del","del","sattr","dattr","copy","move","commit","commit","commit","require_group"])
        ctr+=1
        if k=="set": ops.append(("set",rpath(rng),ctr))
        elif k=="grp": ops.append(("grp",rpath(rng)))
        elif k=="require_group": ops.append(("rgrp",rpath(rng)))
        elif k=="del": ops.append(("del",rpath(rng)))
        elif k=="sattr": ops.append(("sattr",rpath(rng,2) if rng.random()<.8 else "/",rng.choice(KEYS),ctr))
        elif k=="dattr": ops.append(("dattr",rpath(rng,2) if rng.random()<.8 else "/",rng.choice(KEYS)))
        elif k=="copy": ops.append(("copy",rpath(rng),rpath(rng)))
        elif k=="move": ops.append(("move",rpath(rng),rpath(rng)))
        else: ops.append(("commit",))
    return ops
def is_sub(src,dst):
    s=src.strip("/"); t=dst.strip("/")
    return t==s or t.startswith(s+"/")
def apply(f,op,patching):
    k=op[0]
    if k=="set": f[op[1]]=op[2]
    elif k=="grp": f.create_group(op[1])
    elif k=="rgrp": f.require_group(op[1])
    elif k=="del": del f[op[1]]
    elif k=="sattr": f[op[1]].attrs[op[2]]=op[3]
    elif k=="dattr": del f[op[1]].attrs[op[2]]
    elif k=="copy": f.copy(op[1],op[2])
    elif k=="move": f.move(op[1],op[2])
    elif k=="commit":
        if patching: f.commit_patch(); f.create_patch()
fails=collections.Counter(); 
def run(seed):
    rng=random.Random(seed); ops=gen(rng,rng.randint(3,14))
    dd=base/str(seed); dd.mkdir()
    A=IH5Record(dd/"pat","w"); B=IH5Record(dd/"one","w"); C=h5py.File(dd/"h5.h5","w")
    try:
        for i,op in enumerate(ops):
            if op[0]=="move" and is_sub(op[1],op[2]): continue
            if op[0]=="copy" and is_sub(op[1],op[2]): continue  # skip self-subtree for now
            res=[]
            for f,p in ((A,True),(B,False),(C,False)):
                try: apply(f,op,p); res.append("ok")
                except Exception as e: res.append("ERR:"+type(e).__name__)
            st=[x[:3] for x in res]
            da,db,dc=dump(A),dump(B),dump(C)
            if st[0]!=st[1] or da!=db:
                return ("PATCH-DIFF",i,op,res,ops[:i+1])
            if st[1]!=st[2] or db!=dc:
                return ("H5-DIFF",i,op,res,ops[:i+1])
    finally:
        for f in (A,B):
            try: f.close()
            except Exception: pass
        C.close(); shutil.rmtree(dd)
    return None
n=int(sys.argv[1]); seen={}
for s in range(n):
    try: r=run(s)
    except Exception as e:
        r=("HARNESS",type(e).__name__,str(e)[:80]); 
    if r:
        key=(r[0],)+((r[2][0],tuple(r[3])) if r[0]!="HARNESS" else r[1:])
        fails[key]+=1
        if key not in seen or len(r[-1])<len(seen[key][-1]): seen[key]=r
for k,v in fails.most_common(): print(v,k)
for k,r in seen.items(): print(k,"\n    ",r)
shutil.rmtree(base)
