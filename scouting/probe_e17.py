import os, tempfile, shutil, gc, json, random
from pathlib import Path
from metador_core.ih5.record import IH5Record, IH5UserBlock
from metador_core.ih5.manifest import IH5MFRecord
d=Path(tempfile.mkdtemp(dir="/dev/shm"))
def build(cls,dirn,name="rec",n=3):
    p=d/dirn; p.mkdir()
    r=cls(p/name,"w"); r["a"]=1; r.commit_patch()
    for i in range(1,n):
        r.create_patch(); r[f"x{i}"]=i; r.commit_patch()
    files=r.ih5_files; r.close(); return files
def tryopen(cls,files,tag):
    try:
        r=cls(files,"r"); res=("OPENED", sorted(r.keys())); r.close()
    except BaseException as e: res=("fail",type(e).__name__,str(e)[:70])
    gc.collect(); print(f"{tag:40s}",res)
for cls in (IH5Record, IH5MFRecord):
    print("==",cls.__name__)
    A=build(cls,f"A{cls.__name__}"); B=build(cls,f"B{cls.__name__}")
    # fork: copy base+p1 of A to dir F, create alternative p2'
    F=d/f"F{cls.__name__}"; F.mkdir()
    for f in A[:2]:
        shutil.copy(f,F/f.name)
        if cls is IH5MFRecord: shutil.copy(str(f)+"mf.json",F/(f.name+"mf.json"))
    r=cls(F/"rec","r+"); r["forked"]=9; r.commit_patch(); FK=r.ih5_files; r.close()
    tryopen(cls,A,"valid")
    tryopen(cls,list(reversed(A)),"valid reversed")
    tryopen(cls,A[1:],"no base")
    tryopen(cls,[A[0],A[2]],"gap")
    tryopen(cls,[A[0],B[1],A[2]],"foreign middle")
    tryopen(cls,[A[0],A[1],B[2]],"foreign last")
    tryopen(cls,A+[B[2]],"extra foreign")
    tryopen(cls,A+[FK[2]],"both forks at index 2")
    tryopen(cls,[A[0],A[1],FK[2]],"fork as last (legit fork)")
    dup=d/"dup.ih5"; shutil.copy(A[1],dup)
    tryopen(cls,A+[dup],"duplicate p1")
    # payload flip
    for idx in (0,1,2):
        c=d/f"flip{idx}{cls.__name__}"; c.mkdir(); fs=[]
        for f in A:
            shutil.copy(f,c/f.name); fs.append(c/f.name)
            if cls is IH5MFRecord: shutil.copy(str(f)+"mf.json",c/(f.name+"mf.json"))
        b=bytearray(fs[idx].read_bytes()); b[1024+100]^=1; fs[idx].write_bytes(b)
        tryopen(cls,fs,f"flip payload of #{idx}")
        b[1024+100]^=1; b[900]^=0xff; fs[idx].write_bytes(b)
        tryopen(cls,fs,f"flip UB padding of #{idx} (control)")
    if cls is IH5MFRecord:
        c=d/"mf"; c.mkdir(); fs=[]
        for f in A:
            shutil.copy(f,c/f.name); fs.append(c/f.name); shutil.copy(str(f)+"mf.json",c/(f.name+"mf.json"))
        m=Path(str(fs[-1])+"mf.json"); orig=m.read_bytes()
        m.unlink(); tryopen(cls,fs,"manifest missing")
        m.write_bytes(orig.replace(b"  ",b" ",1)); tryopen(cls,fs,"manifest edited")
        m.write_bytes(Path(str(fs[1])+"mf.json").read_bytes()); tryopen(cls,fs,"older manifest")
        m.write_bytes(orig); Path(str(fs[0])+"mf.json").unlink(); tryopen(cls,fs,"base manifest missing (not newest)")
shutil.rmtree(d)
