import os, tempfile, traceback, h5py, json, hashlib, gc
from pathlib import Path
d=Path(tempfile.mkdtemp(dir="/tmp/x")); os.chdir(d)
from metador_core.ih5.record import IH5Record
def snap():
    return {p.name: hashlib.sha256(p.read_bytes()).hexdigest()[:8] for p in sorted(d.iterdir()) if p.is_file()}
def mk(situation, name="foo"):
    for p in d.glob(name+".*"): p.unlink()
    if situation=="absent": return
    r=IH5Record(name,"w"); r["a"]=1
    if situation=="uncommitted_base":
        r.close(commit=False); return
    r.commit_patch()
    if situation=="committed_base": r.close(); return
    r.create_patch(); r["b"]=2; r.commit_patch()
    if situation=="patched": r.close(); return
    r.create_patch(); r["c"]=3; r.close(commit=False)
for sit in ["absent","uncommitted_base","committed_base","patched","uncommitted_patch"]:
    for mode in ["r","r+","a","w","w-","x"]:
        mk(sit); mk("patched","foo2"); mk("patched","fo"); mk("patched", "foo-bar")
        before=snap()
        try:
            r=IH5Record("foo",mode)
            res=("ok", sorted(r.keys()), r._has_writable, len(r.ih5_files))
            r.close(commit=False)
        except Exception as e:
            res=("ERR",type(e).__name__,str(e)[:60])
        gc.collect()
        after=snap()
        changed={k for k in set(before)|set(after) if before.get(k)!=after.get(k)}
        print(f"{sit:18s} {mode:3s} -> {res}  changed={sorted(changed)}")
