import os, tempfile, shutil, gc, json, collections
from pathlib import Path
from metador_core.ih5 import record as R
from metador_core.ih5.record import IH5Record, IH5UserBlock
from metador_core.ih5.manifest import IH5MFRecord
d=Path(tempfile.mkdtemp(dir="/dev/shm"))
cap={}
orig=IH5UserBlock.save
def save(self, filename):
    old=Path(filename).read_bytes()
    orig(self, filename)
    cap[str(filename)]=(old, Path(filename).read_bytes())
IH5UserBlock.save=save
def dump(r): return sorted(r.keys())
for cls in (IH5Record, IH5MFRecord):
    p=d/cls.__name__; p.mkdir()
    r=cls(p/"rec","w"); r["a"]=1; r.commit_patch(); r.create_patch(); r["b"]=2
    cap.clear(); r.commit_patch(); files=r.ih5_files; r.close()
    (fn,(old,new)),=[(k,v) for k,v in cap.items() if k.endswith("p1.ih5")]
    assert old[1024:]==new[1024:]
    L=max(i for i in range(1024) if old[i]!=new[i])+1
    print(cls.__name__,"changed span",min(i for i in range(1024) if old[i]!=new[i]),L)
    out=collections.Counter(); ex={}
    for k in range(0,L+1):
        Path(fn).write_bytes(new[:k]+old[k:])
        try:
            q=cls(p/"rec","r"); committed=q.ih5_meta[-1].hdf5_hashsum is not None; res=("open",committed,tuple(dump(q))); q.close()
        except BaseException as e: res=("fail",type(e).__name__)
        gc.collect(); out[res]+=1; ex.setdefault(res,[]).append(k)
    for k,v in out.items(): print("  ",k,v,ex[k][:3],ex[k][-3:])
    Path(fn).write_bytes(new)
shutil.rmtree(d)
