import os, tempfile, traceback, h5py, json, hashlib
from pathlib import Path
d=Path(tempfile.mkdtemp(dir="/tmp/x")); os.chdir(d)
from metador_core.container import MetadorContainer
from metador_core.ih5.container import IH5Record
from metador_core.packer.utils import pack_file
from metador_core.plugins import schemas
import jsonschema
for drv in (h5py.File, IH5Record):
    m=MetadorContainer(f"c{drv.__name__}", "w", driver=drv)
    for i,bs in enumerate([b"", b"\x00", b"abc\x00\x00", b"\x7f", bytes(range(256)), b"x"*70000]):
        p=d/f"f{i}.bin"; p.write_bytes(bs)
        try:
            n=pack_file(m,p)
            v=n[()]; got=v.tobytes() if hasattr(v,"tobytes") else (b"" if isinstance(v,h5py.Empty) else v)
            fm=n.meta["core.file"]
            print(drv.__name__, i, got==bs, fm.contentSize==len(bs), fm.sha256==hashlib.sha256(bs).hexdigest(), fm.encodingFormat)
        except Exception as e: print(drv.__name__, i, "ERR", type(e).__name__, str(e)[:80])
    ref=schemas.PluginRef(name="core.file",version=(0,1,0))
    if ref in m.metador.schemas:
        js=m.metador.schemas[ref]
        for node in m.metador.query("core.file"):
            raw=json.loads(bytes(node.meta["core.file"]))
            try: jsonschema.Draft7Validator(js).validate(raw); ok=True
            except jsonschema.ValidationError as e: ok=str(e)[:300]
            print("  jsonschema valid:", ok); break
        print(m.metador.schemas.parent_path(ref), m.metador.schemas.provider(ref).name)
    m.close()
