import os, tempfile, traceback
from pathlib import Path
from metador_core.util.hashsums import dir_hashsums
d=Path(tempfile.mkdtemp(dir="/tmp/x"))
(d/"A").mkdir(); (d/"B").mkdir(); (d/"out.txt").write_text("outside")
for n in ("A","B"):
    (d/n/"a").write_text("same"); (d/n/"b").write_text("same"); (d/n/"sub").mkdir(); (d/n/"sub"/"f").write_text("x")
os.symlink("a", d/"A"/"l"); os.symlink("b", d/"B"/"l")
print(dir_hashsums(d/"A")); print(dir_hashsums(d/"B")); print("equal despite different link targets:", dir_hashsums(d/"A")==dir_hashsums(d/"B"))
os.symlink("../out.txt", d/"A"/"esc")
try: print(dir_hashsums(d/"A"))
except Exception as e: print("raised",e)
os.unlink(d/"A"/"esc")
os.symlink("sub", d/"A"/"ld")
print(dir_hashsums(d/"A"))
os.symlink("..", d/"A"/"up")
try: print(dir_hashsums(d/"A"))
except Exception as e: print("raised",e)
