import itertools, copy
from pathlib import Path
from metador_core.util.diff import DirDiff, DiffNode
LE=["sha256:aa","sha256:bb","symlink:a"]
def dirs1():
    opts=[None]+LE
    for x in itertools.product(opts,repeat=2):
        yield {k:v for k,v in zip("ab",x) if v is not None}
D1=list(dirs1())
def trees():
    opts=[None]+LE+D1
    for x in itertools.product(opts,repeat=2):
        yield {k:copy.deepcopy(v) for k,v in zip("ab",x) if v is not None}
T=list(trees()); print(len(T))
def flat(t,pre=Path("")):
    out={}
    for k,v in t.items():
        out[pre/k]=v
        if isinstance(v,dict): out.update(flat(v,pre/k))
    return out
def apply_nodes(prev,nodes):
    t=copy.deepcopy(prev)
    def parent(p):
        cur=t
        for s in p.parts[:-1]:
            cur=cur[s]
            assert isinstance(cur,dict),("parent not dir",p)
        return cur
    for n in nodes:
        p=n.path
        if p==Path(""): continue
        st=n.status()
        par=parent(p)
        if st==DiffNode.Status.removed:
            assert p.name in par
            if isinstance(par[p.name],dict): assert par[p.name]=={},("rm nonempty",p)
            del par[p.name]
        elif st==DiffNode.Status.added:
            assert p.name not in par
            par[p.name]={} if isinstance(n.curr,dict) else n.curr
        else:
            assert p.name in par
            old=par[p.name]
            if isinstance(n.curr,dict):
                if not isinstance(old,dict): par[p.name]={}
            else:
                if isinstance(old,dict): assert old=={},("replace nonempty dir",p)
                par[p.name]=n.curr
    return t
import random
rng=random.Random(0); bad=0; n=0
pairs=[(rng.choice(T),rng.choice(T)) for _ in range(6000)]+[(t,t) for t in T[:50]]
for a,b in pairs:
    n+=1
    d=DirDiff.compare(a,b)
    fa,fb=flat(a),flat(b)
    exp={p for p in set(fa)|set(fb) if fa.get(p)!=fb.get(p)}
    try:
        assert d.is_empty==(a==b)
        nodes=[] if d.is_empty else d._diff_root.nodes()
        got={x.path for x in nodes if x.path!=Path("")}
        assert got==exp,(got,exp)
        for x in nodes:
            if x.path==Path(""): continue
            assert x.prev==fa.get(x.path) and x.curr==fb.get(x.path)
            assert d.get(x.path) is x
        assert apply_nodes(a,nodes)==b
    except AssertionError as e:
        bad+=1
        if bad<4: print("FAIL",a,b,e)
print(n,bad)
