import itertools, traceback
from typing import Optional, List, Set, Union, Literal
from pydantic import ValidationError
from metador_core.schema import MetadataSchema
from metador_core.schema.core import check_types
from metador_core.schema.types import Int, Float, Str, Bool, NonEmptyStr, MimeTypeStr, HashsumStr
from pydantic import PositiveInt, NonNegativeInt, AnyHttpUrl
T={"int":int,"Int":Int,"Float":Float,"float":float,"Str":Str,"str":str,"Bool":Bool,"bool":bool,"NE":NonEmptyStr,"Mime":MimeTypeStr,"Hash":HashsumStr,
   "OptInt":Optional[Int],"LInt":List[Int],"Lint":List[int],"SInt":Set[Int],"UIS":Union[Int,Str],"UISB":Union[Int,Str,Bool],"Lit1":Literal[1],"Lit12":Literal[1,2],"LitT":Literal[True],"LitA":Literal["a"],"LitAB":Literal["a","b"],
   "Pos":PositiveInt,"NonNeg":NonNegativeInt,"Url":AnyHttpUrl, "LNE":List[NonEmptyStr],"LStr":List[Str], "OptLInt":Optional[List[Int]]}
VALS=[0,1,2,-1,True,False,1.0,1.5,"", " ", "a","b","a/b","ff","http://x.org",None,[],[1],[1,2],["a"],[""],[True],[1.5],{1},"1"]
acc=[];wit=[]
for (pn,P),(cn,C) in itertools.product(T.items(),repeat=2):
    if pn==cn: continue
    try:
        Par=type("Par",(MetadataSchema,),{"__annotations__":{"f":P}})
        Ch=type("Ch",(Par,),{"__annotations__":{"f":C}})
        check_types(Ch)
    except (TypeError,ValueError) as e:
        continue
    except Exception as e:
        print("ODD",pn,cn,type(e).__name__,str(e)[:80]); continue
    acc.append((pn,cn))
    for v in VALS:
        try: c=Ch(f=v)
        except ValidationError: continue
        except Exception as e: print("ODDv",pn,cn,v,type(e).__name__); continue
        try: Par.parse_raw(bytes(c))
        except ValidationError as e:
            wit.append((pn,cn,v)); break
print(len(acc),"accepted",acc); print("witnesses:",wit)
