import os, tempfile, h5py, traceback, signal
from pathlib import Path
d=Path(tempfile.mkdtemp(dir="/tmp/x")); os.chdir(d)
from metador_core.ih5.record import IH5Record
def names(f):
    out=[]; f.visit(out.append); return out
f=h5py.File("a.h5","w"); f["a/x"]=1; f["a/g/y"]=2
f.copy("a","a/g/c"); print("h5py:", names(f)); f.close()
signal.alarm(20)
for patch in (False,True):
    r=IH5Record(f"r{patch}","w"); r["a/x"]=1; r["a/g/y"]=2
    if patch: r.commit_patch(); r.create_patch()
    try:
        r.copy("a","a/g/c"); print("ih5 patch=",patch, names(r))
    except BaseException as e: print("ih5 patch=",patch,"ERR",type(e).__name__, str(e)[:100])
    r.close()
