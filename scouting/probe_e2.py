import traceback
from metador_core.schema import MetadataSchema
from metador_core.schema.types import Duration, PintUnit, PintQuantity, NonEmptyStr
from typing import Optional, List, Set
class A(MetadataSchema):
    d: Optional[Duration]
    u: Optional[PintUnit]
    q: Optional[PintQuantity]
for kw in [dict(d="PT3H4M1S"), dict(u="meter"), dict(q="5 meter")]:
    try:
        a=A(**kw); print(repr(a)); j=a.json(); print(j); b=A.parse_raw(bytes(a)); print(b==a)
        print(a.yaml()); print(A.parse_raw(a.yaml())==a)
    except Exception as e:
        traceback.print_exc(limit=3)
from metador_core.schema.plugins import PluginRef
r1=PluginRef(group="g",name="n",version=(0,1,0))
r2=PluginRef(group="g",name="n",version=(0,1,0))
print("ge",r1>=r2, "le", r1<=r2, "lt", r1<r2, "gt", r1>r2, "eq", r1==r2)
class N(MetadataSchema):
    x: Optional[int]
class P(MetadataSchema):
    i: Optional[int]
    b: Optional[bool]
    s: Optional[str]
    l: Optional[List[int]]
    n: Optional[N]
PP=P.Partial
e=PP()
p=PP(i=0,b=False,l=[])
print("id-right", p.merge_with(e)==p, p.merge_with(e))
print("id-left", e.merge_with(p)==p, e.merge_with(p))
try:
    a=PP.parse_obj({"n":{"x":1}}); b=PP.parse_obj({"n":{"x":1}})
    print(type(a.n)); print(a.merge_with(b, allow_overwrite=True))
except Exception: traceback.print_exc(limit=4)
