import os, sys, tempfile, signal, time, h5py, shutil
from pathlib import Path
d=Path(tempfile.mkdtemp(dir="/dev/shm")); os.chdir(d)
from metador_core.ih5.record import IH5Record
import metador_core
ROOT=os.path.dirname(metador_core.__file__)
mon=sys.monitoring; TID=3
mon.use_tool_id(TID,"verif")
class Budget(BaseException): pass
state={"n":0,"limit":None,"kill_at":None,"lines":0}
def py_start(code, off):
    if not code.co_filename.startswith(ROOT): return mon.DISABLE
    state["n"]+=1
    if state["limit"] and state["n"]>state["limit"]: raise Budget()
def line(code, ln):
    if not code.co_filename.startswith(ROOT+"/ih5") and not code.co_filename.endswith("hashsums.py"): return mon.DISABLE
    state["lines"]+=1
    if state["kill_at"] is not None and state["lines"]==state["kill_at"]:
        os.kill(os.getpid(), signal.SIGKILL)
mon.register_callback(TID, mon.events.PY_START, py_start)
mon.register_callback(TID, mon.events.LINE, line)
# 1. step budget on self-subtree copy
r=IH5Record("rec","w"); r["a/x"]=1; r["a/g/y"]=2
mon.set_events(TID, mon.events.PY_START)
state["n"]=0; state["limit"]=50000
t=time.time()
try: r.copy("a","a/g/c"); print("copy returned")
except Budget: print("budget exceeded after", state["n"], "calls in", round(time.time()-t,2),"s")
mon.set_events(TID, 0); state["limit"]=None
r.close(commit=False)
# 2. count LINE events in a patch cycle
def cycle(name):
    r=IH5Record(name,"r+")
    r["n1"]=1; r["g/n2"]=[1,2,3]; r.attrs["k"]=2
    r.commit_patch(); r.close()
r=IH5Record("rec2","w"); r["a/x"]=1; r.close()
shutil.copy("rec2.ih5","rec3.ih5")
mon.set_events(TID, mon.events.LINE); state["lines"]=0
cycle("rec2")
mon.set_events(TID,0); N=state["lines"]; print("LINE events in cycle:", N)
# 3. fork + kill at k
outcomes={}
t=time.time()
for k in range(1,N+1, max(1,N//40)):
    wd=d/f"k{k}"; wd.mkdir(); shutil.copy("rec3.ih5", wd/"rec2.ih5")
    pid=os.fork()
    if pid==0:
        os.chdir(wd); state["lines"]=0; state["kill_at"]=k
        mon.restart_events(); mon.set_events(TID, mon.events.LINE)
        cycle("rec2"); os._exit(0)
    _,st=os.waitpid(pid,0)
    try:
        q=IH5Record(wd/"rec2","r"); res=("open", len(q.ih5_files), q.ih5_meta[-1].hdf5_hashsum is not None, tuple(sorted(q.keys()))); q.close()
    except Exception as e: res=("fail",type(e).__name__)
    import gc; gc.collect()
    outcomes.setdefault((os.WIFSIGNALED(st),)+res,[]).append(k)
print("forks took", round(time.time()-t,2))
for k,v in outcomes.items(): print(k, v[:8], len(v))
os.chdir("/"); shutil.rmtree(d)
